#!/bin/bash
# usage: confirm_seed.sh <src dir with patch.diff demo.rs meta.json> <seeded id>   (e.g. /tmp/seed/C01/out/A C01-A)
# Confirms in a scratch worktree of /repo HEAD: patch applies; full suite passes with it; demo fails with it and passes without.
# On success copies the three files to /verif/seeded/<id>/ and appends what was run to meta.json.
set -u
SRC=$1; ID=$2
W=/tmp/confirm-$ID
rm -rf $W; git -C /repo worktree prune
git -C /repo worktree add -q --detach $W HEAD || exit 2
cp /repo/Cargo.lock $W/ 2>/dev/null
cd $W
export CARGO_NET_OFFLINE=true CARGO_TARGET_DIR=/tmp/confirm-target
res() { echo "$1"; }
mkdir -p tests
cp $SRC/demo.rs tests/demo.rs
cargo test --offline --test demo >/tmp/confirm-$ID.base.log 2>&1; BASE=$?
if ! git apply $SRC/patch.diff 2>/tmp/confirm-$ID.apply.log; then
  if ! git apply -3 $SRC/patch.diff 2>>/tmp/confirm-$ID.apply.log; then echo "PATCH DOES NOT APPLY to HEAD"; cat /tmp/confirm-$ID.apply.log; cd /; git -C /repo worktree remove --force $W; exit 3; fi
fi
git diff -- src > /tmp/confirm-$ID.patch
cargo test --offline --test demo >/tmp/confirm-$ID.mut.log 2>&1; MUT=$?
rm -rf tests
cargo nextest run --workspace --no-fail-fast --offline >/tmp/confirm-$ID.suite.log 2>&1; SUITE=$?
SUM=$(grep -E "Summary" /tmp/confirm-$ID.suite.log | tail -1)
echo "demo on HEAD: rc=$BASE (want 0); demo with patch: rc=$MUT (want !=0); suite with patch: rc=$SUITE $SUM"
cd /; git -C /repo worktree remove --force $W
if [ $BASE -eq 0 ] && [ $MUT -ne 0 ] && [ $SUITE -eq 0 ]; then
  mkdir -p /verif/seeded/$ID
  cp /tmp/confirm-$ID.patch /verif/seeded/$ID/patch.diff
  cp $SRC/demo.rs /verif/seeded/$ID/demo.rs
  python3 - "$SRC/meta.json" "/verif/seeded/$ID/meta.json" "$SUM" <<'PY'
import json,sys
m=json.load(open(sys.argv[1]))
m['confirmed_by_me']=["scratch worktree of /repo HEAD: demo passes without the patch","demo fails with the patch","cargo nextest run --workspace --offline with the patch:"+sys.argv[3]]
json.dump(m,open(sys.argv[2],'w'),ensure_ascii=False,indent=1)
PY
  echo "CONFIRMED -> /verif/seeded/$ID"
else
  echo "NOT CONFIRMED"; tail -5 /tmp/confirm-$ID.base.log; exit 1
fi
