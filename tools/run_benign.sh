#!/bin/bash
# usage: run_benign.sh <dir with patch.diff> <label>   Applies a behaviour-preserving change to /repo, runs every quick check,
# reverts. Any VIOLATION / non-zero exit is a false alarm (or the change is not behaviour-preserving after all).
D=$(cd "$1" && pwd); L=$2
cd /verif
if ! git -C /repo diff --quiet; then echo "/repo dirty"; exit 2; fi
if ! git -C /repo apply $D/patch.diff; then echo "$L: patch does not apply"; exit 3; fi
BAD=0
for i in $(seq -w 1 20); do
  ./check C$i --tier quick > /tmp/benign.$L.C$i.log 2>&1; RC=$?
  if [ $RC -ne 0 ]; then BAD=1; echo "$L C$i rc=$RC: $(grep -A1 '^VIOLATION\|MACHINERY' /tmp/benign.$L.C$i.log | head -3 | cut -c1-300)"; fi
done
git -C /repo checkout -- .
[ $BAD -eq 0 ] && echo "$L: all 20 quick checks exit 0"
