#!/bin/bash
# usage: run_seed.sh <seeded id> <Cxx> [tier]   applies seeded/<id>/patch.diff to /repo, runs the check, reverts.
ID=$1; P=$2; T=${3:-quick}
cd /verif
if ! git -C /repo diff --quiet; then echo "/repo has uncommitted changes"; exit 2; fi
git -C /repo apply /verif/seeded/$ID/patch.diff || { echo "patch does not apply"; exit 2; }
./check $P --tier $T > /tmp/run_seed.$ID.$P.log 2>&1; RC=$?
git -C /repo checkout -- .
N=$(grep -c "^VIOLATION" /tmp/run_seed.$ID.$P.log)
echo "seed $ID check $P tier $T: rc=$RC violations_lines=$N"
grep -A1 "^VIOLATION" /tmp/run_seed.$ID.$P.log | head -6
tail -1 /tmp/run_seed.$ID.$P.log
