#!/bin/bash
# Applies every seeded change to /repo in turn, runs its property's check (tier $1, default quick), reverts, and
# writes /verif/seeded/RESULTS.md (which check caught which change). Run only when nothing else uses /repo.
T=${1:-quick}
cd /verif
OUT=/verif/seeded/RESULTS.md
echo "| seeded change | property | tier | exit | first violation reported |" > $OUT.tmp
echo "|---|---|---|---|---|" >> $OUT.tmp
for d in seeded/${2:-C*-*}; do
  ID=$(basename $d); P=${ID%%-*}
  if ! git -C /repo diff --quiet; then echo "/repo dirty"; exit 2; fi
  if ! git -C /repo apply /verif/$d/patch.diff 2>/dev/null; then echo "| $ID | $P | $T | patch does not apply | |" >> $OUT.tmp; continue; fi
  ./check $P --tier $T > /tmp/run_all.$ID.log 2>&1; RC=$?
  git -C /repo checkout -- .
  V=$(grep -A1 "^VIOLATION" /tmp/run_all.$ID.log | sed -n 2p | cut -c1-160 | tr '|' '/')
  echo "| $ID | $P | $T | $RC | $V |" >> $OUT.tmp
  echo "$ID $RC"
done
mv $OUT.tmp $OUT
