#!/usr/bin/env python3
"""Mechanical mutants of /repo/src/tyme (non-test code, no tables/strings): relational operator flips, integer literal +-1,
'+'<->'-' between simple operands. Writes /tmp/mut/mutants.json."""
import re, glob, json, os, sys
ROOT='/repo/src/tyme'
out=[]
def in_table(lines,i):
    # skip long numeric table rows (util.rs coefficient arrays)
    l=lines[i]
    return len(re.findall(r'-?\d+\.?\d*',l))>6
for f in sorted(glob.glob(ROOT+'/**/*.rs',recursive=True)):
    rel=os.path.relpath(f,'/repo')
    lines=open(f).read().split('\n')
    intest=False; depth_fn=None
    for i,l in enumerate(lines):
        if re.match(r'\s*#\[cfg\(test\)\]',l): intest=True
        if intest: break
        s=l.strip()
        if not s or s.startswith('//') or '"' in l or "'" in l or 'static ' in l or 'const ' in l or 'cfg(' in l or s.startswith('use ') or s.startswith('#['): continue
        if in_table(lines,i): continue
        if re.search(r'\bfn\b|\bimpl\b|\bstruct\b|\benum\b|\btrait\b',l): continue
        # relational operators
        for m in re.finditer(r' (<=|>=|<|>) ',l):
            op=m.group(1)
            # avoid generics / arrows
            new={'<':'<=','<=':'<','>':'>=','>=':'>'}[op]
            out.append({'file':rel,'line':i+1,'col':m.start(1),'old':op,'new':new,'kind':'rel'})
        # equality flips are too destructive; skip. integer literals
        for m in re.finditer(r'(?<![\w.])(\d+)(?![\w.]|\.\d)',l):
            v=int(m.group(1))
            if v>100000: continue
            # skip array sizes / type positions like [f64; 3]
            if re.search(r';\s*$',l[:m.start()]) and l[m.end():m.end()+1]==']': continue
            for nv in ([v+1] if v==0 else [v+1,v-1]):
                out.append({'file':rel,'line':i+1,'col':m.start(1),'old':m.group(1),'new':str(nv),'kind':'int'})
        for m in re.finditer(r'(?<=[\w\)\]]) (\+|-) (?=[\w\(])',l):
            op=m.group(1)
            out.append({'file':rel,'line':i+1,'col':m.start(1),'old':op,'new':'-' if op=='+' else '+','kind':'arith'})
os.makedirs('/tmp/mut',exist_ok=True)
json.dump(out,open('/tmp/mut/mutants.json','w'))
import collections
print(len(out),collections.Counter(m['file'] for m in out).most_common(12),collections.Counter(m['kind'] for m in out))
