#!/usr/bin/env python3
"""usage: rerun.py <check> <mutant id> ... : apply the mutant (from /tmp/mut/mutants_tested.json) to /repo, run the check, revert."""
import json,subprocess,sys,os
muts={m['id']:m for m in json.load(open('/tmp/mut/mutants_tested.json'))}
chk=sys.argv[1]
for i in map(int,sys.argv[2:]):
    m=muts[i]; path=os.path.join('/repo',m['file'])
    assert subprocess.run(['git','-C','/repo','diff','--quiet']).returncode==0
    src=open(path).read().split('\n'); l=src[m['line']-1]
    src2=list(src); src2[m['line']-1]=l[:m['col']]+m['new']+l[m['col']+len(m['old']):]
    open(path,'w').write('\n'.join(src2))
    p=subprocess.run(['./check',chk,'--tier','quick'],cwd='/verif',stdout=subprocess.PIPE,stderr=subprocess.STDOUT,text=True)
    subprocess.run(['git','-C','/repo','checkout','--','.'])
    v=[x for x in p.stdout.split('\n') if x.startswith('    [')]
    print(i,m['file'],m['line'],m['old'],'->',m['new'],'rc',p.returncode,(v[0][:220] if v else ''))
