#!/usr/bin/env python3
"""Stage 2: apply each sampled surviving mutant to /repo (exclusive use!), run the quick checks mapped to its file until one
reports a violation, revert. Appends to /tmp/mut/stage2.jsonl."""
import json, subprocess, os, sys, time
STEP=int(sys.argv[1]) if len(sys.argv)>1 else 5
OFF=int(sys.argv[2]) if len(sys.argv)>2 else 0
MAP=[('src/tyme/solar.rs',['C01','C12','C13','C14','C15','C06','C20','C02','C16','C08']),
     ('src/tyme/lunar.rs',['C03','C02','C07','C13','C14','C17','C10','C09','C20','C18']),
     ('src/tyme/util.rs',['C04','C03','C05','C06','C02']),
     ('src/tyme/sixtycycle.rs',['C19','C07','C13','C17','C16','C08','C11','C09']),
     ('src/tyme/eightchar/mod.rs',['C09','C16','C19','C11']),
     ('src/tyme/eightchar/provider.rs',['C16','C09']),
     ('src/tyme/jd.rs',['C01','C12','C07','C05']),
     ('src/tyme/culture/mod.rs',['C11','C18','C19','C17','C15']),
     ('src/tyme/culture/',['C19','C17','C18','C11','C15']),
     ('src/tyme/holiday.rs',['C20']),('src/tyme/festival.rs',['C20']),
     ('src/tyme/enums.rs',['C11','C19','C16']),('src/tyme/mod.rs',['C19','C11'])]
muts=[m for m in json.load(open('/tmp/mut/mutants_tested.json')) if m['tests']=='survived']
FILT=sys.argv[3].split(',') if len(sys.argv)>3 else None
if FILT: muts=[m for m in muts if any(m['file'].endswith(f) for f in FILT)]
sample=muts[OFF::STEP]
done=set()
if os.path.exists('/tmp/mut/stage2.jsonl'):
    for l in open('/tmp/mut/stage2.jsonl'): done.add(json.loads(l)['id'])
print(len(muts),'survivors; sample',len(sample),flush=True)
for m in sample:
    if m['id'] in done: continue
    checks=next((c for p,c in MAP if m['file'].startswith(p)),['C11'])
    if subprocess.run(['git','-C','/repo','diff','--quiet']).returncode!=0:
        print('/repo dirty'); sys.exit(2)
    path=os.path.join('/repo',m['file'])
    src=open(path).read().split('\n'); l=src[m['line']-1]
    assert l[m['col']:m['col']+len(m['old'])]==m['old']
    src2=list(src); src2[m['line']-1]=l[:m['col']]+m['new']+l[m['col']+len(m['old']):]
    open(path,'w').write('\n'.join(src2))
    caught=None; t0=time.time(); ran=[]
    try:
        for c in checks:
            p=subprocess.run(['./check',c,'--tier','quick'],cwd='/verif',stdout=subprocess.PIPE,stderr=subprocess.STDOUT,text=True)
            ran.append((c,p.returncode))
            if p.returncode==1 and 'VIOLATION' in p.stdout:
                v=[x for x in p.stdout.split('\n') if x.startswith('    [')]
                caught=(c,v[0][:200] if v else ''); break
            if p.returncode not in (0,1):
                caught=(c,'MACHINERY rc=%d'%p.returncode); break
    finally:
        subprocess.run(['git','-C','/repo','checkout','--','.'])
    m2=dict(m,caught=caught,ran=ran,secs=round(time.time()-t0,1),code=l.strip()[:160])
    open('/tmp/mut/stage2.jsonl','a').write(json.dumps(m2,ensure_ascii=False)+'\n')
    print(m['id'],m['file'],m['line'],m['old'],'->',m['new'],'caught' if caught else 'UNCAUGHT',caught[0] if caught else '',m2['secs'],flush=True)
