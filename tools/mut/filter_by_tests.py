#!/usr/bin/env python3
"""Stage 1: which mutants compile and pass the repository's 272 tests? N parallel scratch worktrees of /repo HEAD."""
import json, subprocess, os, sys, threading, queue, time
N=int(sys.argv[1]) if len(sys.argv)>1 else 8
muts=json.load(open('/tmp/mut/mutants.json'))
for i,m in enumerate(muts): m['id']=i
q=queue.Queue()
for m in muts: q.put(m)
res={}
lock=threading.Lock()
def worker(k):
    w=f'/tmp/mut/w{k}'
    if not os.path.isdir(w):
        subprocess.run(['git','-C','/repo','worktree','add','-q','--detach',w,'HEAD'],check=True)
        subprocess.run(['cp','/repo/Cargo.lock',w+'/'])
    env=dict(os.environ,CARGO_NET_OFFLINE='true',CARGO_TARGET_DIR=f'/tmp/mut/t{k}')
    while True:
        try: m=q.get_nowait()
        except queue.Empty: return
        path=os.path.join(w,m['file'])
        src=open(path).read().split('\n')
        l=src[m['line']-1]
        assert l[m['col']:m['col']+len(m['old'])]==m['old'],(m,l)
        src2=list(src); src2[m['line']-1]=l[:m['col']]+m['new']+l[m['col']+len(m['old']):]
        open(path,'w').write('\n'.join(src2))
        try:
            p=subprocess.run(['cargo','nextest','run','--offline','--no-fail-fast'],cwd=w,env=env,stdout=subprocess.PIPE,stderr=subprocess.STDOUT,text=True,timeout=300)
            out=p.stdout
            if 'error: could not compile' in out or 'error[' in out: st='nocompile'
            elif p.returncode==0: st='survived'
            else: st='killed'
        except subprocess.TimeoutExpired:
            st='timeout'
        open(path,'w').write('\n'.join(src))
        with lock:
            res[m['id']]=st
            if len(res)%50==0:
                import collections
                print(len(res),collections.Counter(res.values()),flush=True)
ths=[threading.Thread(target=worker,args=(k,)) for k in range(N)]
for t in ths: t.start()
for t in ths: t.join()
for m in muts: m['tests']=res.get(m['id'])
json.dump(muts,open('/tmp/mut/mutants_tested.json','w'))
import collections
print('done',collections.Counter(res.values()))
