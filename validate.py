#!/usr/bin/env python3
"""validate MANIFEST.json and every evidence file against the schemas (needs jsonschema: python3-vt)"""
import json, sys, glob, jsonschema
ok = True
m = json.load(open('/verif/MANIFEST.json'))
jsonschema.validate(m, json.load(open('/root/.vp/MANIFEST.schema.json')))
s = json.load(open('/root/.vp/EVIDENCE.schema.json'))
for f in sorted(glob.glob('/verif/evidence/*.json')):
    try:
        jsonschema.validate(json.load(open(f)), s)
    except Exception as e:
        ok = False
        print('INVALID', f, str(e)[:300])
props = [json.loads(l)['id'] for l in open('/verif/properties.jsonl')]
claimed = [c['property_id'] for c in m['checks']]
na = [c['property_id'] for c in m.get('not_applicable', [])]
for p in props:
    if p not in claimed and p not in na:
        ok = False
        print('property neither claimed nor not_applicable:', p)
print('ok' if ok else 'FAILED', 'claimed', len(claimed), 'not_applicable', len(na))
sys.exit(0 if ok else 1)
