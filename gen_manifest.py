#!/usr/bin/env python3
"""Regenerates /verif/MANIFEST.json from the table below (keeps the manifest valid and in one place)."""
import json, subprocess

HOOK_COMMITS = ["c290b2b"]

# id -> (level text, level note, technique, design ref)
CLAIMED = {
    "C01": (
        "Explicit-state exploration of the real SolarDay/JulianDay code in lock-step with a day-counting odometer of the civil calendar: "
        "all 3,652,061 dates x 34 step sizes x every observer (to/from day count at 3 fractions, next, subtract, order, day-of-year) and all "
        "4.6M candidate (year,month,day) triples for acceptance, plus year/month lengths and leap flags of every year. The space is finite and is "
        "enumerated completely in both tiers, so any constant/threshold/leap-rule slip that changes one date is seen.",
        "Trusted: the odometer reference model (cross-checked at start-up against integer closed-form JDN formulas) and f64 determinism on one machine. Steps whose result leaves 0001..9999 are outside the claim.",
        "explicit-state enumeration of all dates x step alphabet against a civil-calendar odometer model",
        "DESIGN.md 2/C01"),
    "C02": (
        "Explicit-state exploration of the real conversion code: (a) every civil date (thorough: all 3,652,061; quick: the fixed windows + one seed-chosen window) with the transition 'next civil day' checked against the successor relation on lunar dates in model order, and the round trip civil->lunar->civil; (b) every lunation of lunar years 0..9999 x candidate days 0..31 for acceptance and lunar->civil->lunar, every non-existent leap month refused; (c) all ordered pairs from a lunation and the next two x days {1,2,15,last}^2 for before/after vs chronological order; LunarDay.next(n) on first/last days. Complete enumeration finds skipped/duplicated/mis-labelled days that no sample of conversions can.",
        "Trusted: civil odometer; the lunation table read through the public API and laid out in model order (the table itself is judged by C03/C04/C05). Known findings: the reform-era table defects (AD 8-9, 23-25, 239-240) listed in known_findings.json by exact input.",
        "explicit-state enumeration of all civil dates / all lunar dates with successor-relation and round-trip oracles",
        "DESIGN.md 2/C02"),
    "C03": (
        "Explicit-state exploration over the complete chain of lunations of lunar years 0..9999 (123,684 states): every adjacent pair must abut (first day + length = next first day), lengths 29/30, memo answer = cache-free constructor, next(n) = chain position + n for a step alphabet (thorough: -14..14, +-25, +-100, +-1237), and per year the month list / count / leap position / day count / new-year distance. Both tiers enumerate the whole chain; one corrupted packed table character shifts one year and is seen as a gap/overlap.",
        "Trusted: model order of a lunar year (1..12, leap directly after its twin). Known findings: 4 boundary breaks + one 28-day month + 4 year spans of the AD 9-23 / 237-239 reform periods.",
        "explicit-state enumeration of the whole lunation chain with tiling invariants and step-alphabet conformance",
        "DESIGN.md 2/C03"),
    "C04": (
        "Exhaustive check of every winter-solstice-to-winter-solstice span starting in 27..9997 except 237-239 (thorough: all 9,968; quick: windows): the lunation containing the library's own calendar-making solstice day must be month 11; 12 lunations => no leap, 13 => the first without a major-term day is the leap month and repeats the previous number; every lunation's label is compared with the rule's label and with get_leap_month / get_month_with_leap.",
        "Relational oracle: the library's own new-moon days and term days (judged astronomically in C05); the rule is the classical no-major-term rule. Years before 27 and the sui starting 237-239 are outside the property.",
        "exhaustive enumeration of all sui with a rule-derived labelling compared to the implementation's labels",
        "DESIGN.md 2/C04"),
    "C10": (
        "Three explorers. (1) Explicit-state BFS over the real process-wide memo: state = canonical memo snapshot + poison flags (read through the verif hooks), transition = one request of an alphabet built to collide under every plausible keying plus refused requests; run to a fixpoint on the core alphabet (quick 256 states / thorough 4096) and to depth 2/3 on the full alphabet incl. walkers and the provider locks; every answer must equal the cold answer and the cache-free constructor. (2) Value-level lazy fields: every sequence of <= 3 observers on LunarDay/LunarHour values vs a fresh value. (3) loom (DPOR) over the repository's own source files compiled against loom's Mutex/lazy_static: 2-4 threads x 1-3 requests on colliding keys, nested provider->memo locks and Err-refusals, preemption bounds 0,1,2,(3), unbounded for the small harnesses; every complete schedule's answers must equal the cold answers; loom reports deadlocks.",
        "The '16 OS threads' clause is replaced by exhaustive loom schedules of small harnesses (a free-running stress run would be sampling). loom cannot unwind through a held loom MutexGuard, so panicking refusals are decided by the sequential explorer on std's Mutex (which has poisoning); data races on the !Sync lazy fields are excluded by the compiler (no unsafe).",
        "explicit-state BFS over memo states against cold answers + loom bounded-preemption schedule exploration of the real source",
        "DESIGN.md 2/C10"),
}

NOT_YET = "check not built yet in this round (planned in DESIGN.md section 2); not claimed until it has run clean and caught a seeded change"

def main():
    props = [json.loads(l) for l in open('/verif/properties.jsonl')]
    checks, na = [], []
    for p in props:
        i = p['id']
        if i in CLAIMED:
            text, note, tech, ref = CLAIMED[i]
            checks.append({
                "property_id": i,
                "quick_cmd": "./check %s --tier quick" % i,
                "thorough_cmd": "./check %s --tier thorough" % i,
                "evidence_file": "/verif/evidence/%s.json" % i,
                "replay_cmd_template": "./check --replay {path}",
                "engine": "tyme-mc" if i != "C10" else "tyme-mc + tyme-mc-loom",
                "level_claimed": {"category": "model_checking", "text": text, "design_ref": ref},
                "level_note": note,
                "technique": tech,
            })
        else:
            na.append({"property_id": i, "reason": NOT_YET})
    m = {
        "version": 1,
        "setup_cmd": "./check --setup",
        "hooks": {
            "guard": "--cfg tyme4rs_verif (memo reset/snapshot/poison probes) and --cfg tyme4rs_verif_loom (loom sync types); both rustc cfg flags, off by default",
            "enable": "RUSTFLAGS='--cfg tyme4rs_verif' via /verif/mc/.cargo/config.toml (path dependency on /repo); '--cfg tyme4rs_verif --cfg tyme4rs_verif_loom' via /verif/mc-loom/.cargo/config.toml (#[path]-includes /repo/src/tyme/mod.rs)",
            "baseline_off_cmd": "cd /repo && (cargo nextest run --workspace --no-fail-fast --test-threads 8 --offline || cargo test --workspace --no-fail-fast --offline)",
            "source_commits": HOOK_COMMITS,
            "add_only": True,
        },
        "engines": [
            {"name": "tyme-mc", "path": "/verif/mc", "serves_properties": [c["property_id"] for c in checks],
             "kind_free_text": "explicit-state explorer: enumerates complete finite state sets (dates, lunations, terms, cycle elements, histories) and step alphabets on the real tyme4rs API, compares every state/transition with a reference model; 16 worker threads"},
            {"name": "tyme-mc-loom", "path": "/verif/mc-loom", "serves_properties": ["C10"] if "C10" in CLAIMED else [],
             "kind_free_text": "loom (DPOR, bounded preemptions) over the repository's own source files compiled against loom's Mutex/lazy_static"},
        ],
        "checks": checks,
        "not_applicable": na,
        "notes": "Driver: /verif/check. Known findings: /verif/known_findings.json (never written at run time). Exit 2 = machinery failure, never a verdict.",
    }
    json.dump(m, open('/verif/MANIFEST.json', 'w'), indent=1, ensure_ascii=False)
    print("claimed", len(checks), "not_applicable", len(na))

if __name__ == "__main__":
    main()
