#!/usr/bin/env python3
"""Regenerates /verif/MANIFEST.json from the table below (keeps the manifest valid and in one place)."""
import json, subprocess

HOOK_COMMITS = ["c290b2b", "06f1b1a"]

# id -> (level text, level note, technique, design ref)
CLAIMED = {
    "C01": (
        "Explicit-state exploration of the real SolarDay/JulianDay code in lock-step with a day-counting odometer of the civil calendar: "
        "all 3,652,061 dates x 100 step sizes (every n in 1..40 and the month/year/century sized ones, both signs) x every observer (to/from day count at 3 fractions, next, subtract, order, day-of-year) and all "
        "4.6M candidate (year,month,day) triples for acceptance, plus year/month lengths and leap flags of every year. The space is finite and is "
        "enumerated completely in both tiers, so any constant/threshold/leap-rule slip that changes one date is seen. SolarYear::new / SolarMonth::new are accepted exactly for years 1..9999 and months 1..12. Dates handed out in lists (every week of every month x 7 week starts: count and the seven days) and dates reached by stepping a time of day by +-n seconds over midnight (5 clocks x 24 steps) are compared with the same odometer.",
        "Trusted: the odometer reference model (cross-checked at start-up against integer closed-form JDN formulas) and f64 determinism on one machine. Steps whose result leaves 0001..9999 are outside the claim.",
        "explicit-state enumeration of all dates x step alphabet against a civil-calendar odometer model",
        "DESIGN.md 2/C01"),
    "C02": (
        "Explicit-state exploration of the real conversion code: (a) every civil date (thorough: all 3,652,061; quick: the fixed windows + one seed-chosen window) with the transition 'next civil day' checked against the successor relation on lunar dates in model order, and the round trip civil->lunar->civil; (b) every lunation of lunar years 0..9999 x candidate days 0..31 for acceptance and lunar->civil->lunar, every non-existent leap month refused; (c) all ordered pairs from a lunation and the next two x days {1,2,15,last}^2 for before/after vs chronological order; LunarDay.next(n) on first/last days. Complete enumeration finds skipped/duplicated/mis-labelled days that no sample of conversions can. The quick tier also visits the first day, the day before it and the 15th day of every lunation of 0..9999. LunarHour::next over the day border from the first / last day of every lunation lands on the neighbouring lunar day. (d) the months handed out by LunarYear::get_months() of every lunar year 1..9998 outside the reform era are in chronological order (first days one month length apart, before/after in list order).",
        "Trusted: civil odometer; the lunation table read through the public API and laid out in model order (the table itself is judged by C03/C04/C05). Known findings: the reform-era table defects (AD 8-9, 23-25, 239-240) listed in known_findings.json by exact input.",
        "explicit-state enumeration of all civil dates / all lunar dates with successor-relation and round-trip oracles",
        "DESIGN.md 2/C02"),
    "C03": (
        "Explicit-state exploration over the complete chain of lunations of lunar years 0..9999 (123,684 states): every adjacent pair must abut (first day + length = next first day), lengths 29/30, memo answer = cache-free constructor, next(n) = chain position + n for a step alphabet (thorough: -14..14, +-25, +-100, +-1237), and per year the month list / count / leap position / day count / new-year distance. Per year also: LunarMonth::new(y, -m) is accepted iff m is the leap month. Per month: the listed days carry the month's own label; a second (memoised) lookup keeps its position and successor. Both tiers enumerate the whole chain; one corrupted packed table character shifts one year and is seen as a gap/overlap.",
        "Trusted: model order of a lunar year (1..12, leap directly after its twin). Known findings: 4 boundary breaks + one 28-day month + 4 year spans of the AD 9-23 / 237-239 reform periods.",
        "explicit-state enumeration of the whole lunation chain with tiling invariants and step-alphabet conformance",
        "DESIGN.md 2/C03"),
    "C04": (
        "Exhaustive check of every winter-solstice-to-winter-solstice span starting in 27..9997 except 237-239 (thorough: all 9,968; quick: windows): the lunation containing the library's own calendar-making solstice day must be month 11; 12 lunations => no leap, 13 => the first without a major-term day is the leap month and repeats the previous number; every lunation's label is compared with the rule's label and with get_leap_month / get_month_with_leap. Both tiers enumerate all sui; the 12 major terms of every year are also addressed with out-of-range indices (i-24 from the next year, i+24 from the previous one); only the leap month of each year is constructible as a leap month.",
        "Relational oracle: the library's own new-moon days and term days (judged astronomically in C05); the rule is the classical no-major-term rule. Years before 27 and the sui starting 237-239 are outside the property.",
        "exhaustive enumeration of all sui with a rule-derived labelling compared to the implementation's labels",
        "DESIGN.md 2/C04"),
    "C05": (
        "Four bounded spaces, each enumerated completely. (1) all 6,024 solar terms and 3,110 lunations of 1900-2150 against an independent theory typed from Meeus (ch. 25 apparent solar longitude + Espenak-Meeus delta-T: tolerance 15 min = the theory's 0.01 deg; ch. 49 new-moon series with 14 planetary terms, compared in TT: tolerance 1 min), and all lunations of -1000..6000 (quick 1000..4000) within 3 min; (2) every term of 1961-9999 and every lunation of lunar years 1961-8000 (quick: windows): calendar-making day = UTC+8 civil day of the precisely solved instant (the midnight guard band); (3) inverse-solver residuals for every target k*pi/12 and k*2pi over +-10,000 years (quick: every 10th) < 1 arcsec; (4) delta-T second differences on a 0.05-year grid over -4000..10000 (< 6 s). (1d) the TT solution of every term target of -2000..6000 against the independent longitude; (1e) all 239,976 terms of 1..9999 as reported by SolarTerm::get_julian_day equal the TT solution for the term's own target converted with the library's TT-UT (1 s) and agree with the independent longitude within a tolerance growing to hours beyond AD 6000.",
        "Sub-space 1 is the only independent one; a coefficient perturbation moving instants by less than the tolerance and flipping no civil day is out of reach offline (stated in the evidence). Known finding: the lunar solver's residual exceeds 1 arcsec (up to 57) beyond about AD 6180 / before 2530 BC.",
        "exhaustive enumeration of all terms/lunations of bounded eras against an independent ephemeris model + self-consistency sweeps",
        "DESIGN.md 2/C05"),
    "C13": (
        "Every civil year 1..9999: 2 half-years, 4 seasons, 12 months, nesting both ways; every one of the 119,988 months lists exactly the odometer's dates of that month, each listed date's day-of-year equals its position in the year's lists, the lists sum to the year's day count. Every lunar year 0..9999: month list = lunation table slice; every lunation lists days 1..=len on consecutive civil days. Hour lists (LunarDay 13 slots, SixtyCycleDay 12 slots with pillars) on 4 x 400 consecutive days; sexagenary months of all Lichun-years (quick: windows) list exactly Jie day .. day before the next Jie. Listed parts point back to their container (get_solar_month, get_solar_year, get_lunar_year, get_lunar_month, get_sixty_cycle_month); lunar months have 29 or 30 days and their listed days convert back to themselves; the month of sexagenary year 0 and the hour lists of the first and last weeks of the range; each hour slot points back to its day's pillar and equals the value built afresh at its instant.",
        "Oracles: odometer, lunation table (model order), the library's own Jie days. In every lunation, listed days whose civil date was already resolved are stepped inside the month and must list the slots of the day they then denote. Sexagenary months are also listed after navigating to them (next(+1), next(-1), next(12) from every enumerated month: count, first and last day against the same model).",
        "exhaustive enumeration of all containers with list-equals-model oracles",
        "DESIGN.md 2/C13"),
    "C14": (
        "Every civil month (thorough: all 119,988; quick: windows) x 7 week starts x every index: week count and refusal beyond it, first-day weekday, 7 consecutive days, date->week for every date of the month, next(n) (first day moves 7n and the (month, index) label denotes that week) for 13 step counts and for every n in -60..60 in years 1-3, 1580-1584, 1998-2030, 9997-9999, index in year. Lunar months of the windows (thorough: plus every 10th year; quick: plus every 17th year and every 13th civil month of the whole range) likewise with n in -30..30; label getters and names of both week types.",
        "Weeks reaching outside 0001-01-01..9999-12-31 are outside the claim; lunar weeks of the reform-era years 7-26 / 235-241 are left to C02/C03.",
        "exhaustive enumeration of all (month, start, index) weeks x step alphabet against an ordinal week model",
        "DESIGN.md 2/C14"),
    "C15": (
        "Every civil date of years 2..9998 (thorough: all 3.65M; quick: windows) x five series re-derived from the term-day table and the (JDN+49) mod 60 pillar only: Nines, Dog days (third Geng day on/after the solstice; 10/20-day middle period by the fifth Geng day vs Liqiu), Plum rains, 72 pentads with inner index, commanding stems from the classical allotment table typed by name.",
        "Term days are the library's own (C05/C06).",
        "explicit-state enumeration of all dates against series re-derived from term table + day pillar",
        "DESIGN.md 2/C15"),
    "C16": (
        "Fully enumerated birth lattices: every Jie of the year windows (quick 1573-75, 1581-83, 2019-25; thorough 2-6, 1570-1590, 1890-2110, 9985-87) x 16 offsets (0, +-1 s, +-59 s, +-1 min, +-1 h, +-1 d, +-3 d, +-15 d, +7 d 3 h) x 2 genders x 4 strategies; births on days 28-31 / 1 of every month (every day of October 1582) at 23:59:59, 00:00:00, 12:00:00; a 997 s lattice across whole Jie-to-Jie spans; one birth per day of 1572-1582. Oracle: direction from year-stem polarity and gender, governing Jie from the term table, documented conversion rates per strategy, end = calendar addition via ordinals, 0 <= end - birth <= 11 y; decade fortunes (pillar = month pillar +-(k+1), ages 10 apart, years) and yearly fortunes (hour pillar +- age, year) incl. next(n). Plus births (one per day of the 11 years before a century year) whose limit ends in 1 Feb..15 Mar of that century year (quick 7 century years, thorough all 99), and births whose limit ends in October..December 9999; all remaining getters (gender, ages, the limit's own decade, a decade's first yearly fortune, Fortune::get_name, the four deprecated lunar-year getters).",
        "'Random birth instants' of the property are replaced by these lattices. When October 1582 is the target month both readings of the day (count / number) are accepted. Limits ending after 9999 are outside the claim.",
        "exhaustive enumeration of birth-instant lattices x genders x strategies against a term-table + calendar-arithmetic model",
        "DESIGN.md 2/C16"),
    "C17": (
        "Day series on every civil date of 1..9998 (thorough all, quick windows): day officer, twelve spirits (both routes), 28 mansions (both routes agree, luminary = weekday, advance by one across every adjacent pair), day nine star (accept-set where the two classical alignments disagree), six-day star incl. every leap-month day, moon phase, minor Ren; hour series (nine star, twelve spirits, minor Ren) on all 24 clock hours of 2000 days (quick 180); each sexagenary month's star also through next(+-1), next(12) from its neighbours; year star for all years -1..9999 (both year types), month star for every sexagenary month and every lunar month.",
        "On every hour of the hour series the already-resolved lunar hour is also stepped by +1, +2, -1 double-hours inside the day and must carry the stars of the hour built afresh from the clock (two routes to one state). Known finding: the 160 reform-era dates (C02) inherit a wrong day pillar. At 23:00 the hour nine star may use either day's branch (the two hour views differ by convention); day nine star of civil year 1 needs the solstice of 1 BC.",
        "explicit-state enumeration of all dates/hours/years against recurrences typed from the classical rules",
        "DESIGN.md 2/C17"),
    "C18": (
        "Complete: all 720 (month branch, day pillar) and 720 (day pillar, hour branch) pairs, visited in both table orders by two worker processes (day table first / hour table first, each table again after the other), all 151 spirits, kitchen-god steed of all lunar years 0..9999, accessors on 360 days x 12 double-hours, LunarYear::get_kitchen_god_steed agrees with KitchenGodSteed::from_lunar_year. Oracle: no failure, entries in the published name lists with round trip, >= 1 spirit per day, recommends and avoids disjoint, luck class by list split, and equality with an independent re-decoding of the three packed tables from the source text (record framing, every hex pair < list length).",
        "If the table literals cannot be found in /repo/src/tyme/culture/mod.rs the re-decoding sub-check reports itself as skipped (never alarms). Lunar year -1 has no constructible first month.",
        "complete enumeration of all table keys with independent re-decoding of the packed tables",
        "DESIGN.md 2/C18"),
    "C19": (
        "Complete finite enumeration (10 stems, 12 branches, 10x10, 10x12, 12x12, 5 elements, 9 directions, 60 pillars, 28 mansions, 9+12+6 stars, 366 month-days, 13 lunar months, 1440 palace-sign inputs): every attribute compared with a first-principles encoding typed by name (generation/overcoming cycle, the five direction rhymes, hidden stems, ten-star by relation x polarity, growth stages, five/six combinations, clashes, harms as involutions, Nayin, Xun and void, zodiac, sign boundaries, daily/monthly foetus spirit, mansion luminary/animal/land/luck, star colours/elements/directions, own sign and body sign by the Five-Tigers rule). The printed foetus-spirit name is composed from place / side / direction; the LunarDay / SixtyCycleDay routes to it are followed on 60 consecutive days. The five small enums (code / name round trips, unknown values refused) and HideHeavenStem::from_name.",
        "The encoding is the trusted base. For 戊戌 己亥 戊申 of the daily foetus-spirit table both printed variants are accepted; the body sign is only required to be a Five-Tigers-legal pillar.",
        "complete enumeration of finite attribute tables against an independent encoding",
        "DESIGN.md 2/C19"),
    "C20": (
        "Civil festivals: every civil date of 1900..2100 (quick 1925..2035) by date, every (year, index 0..11) with next(n), n in -25..25. Lunar festivals: every lunar year (quick: windows + 1925..2035) x indices 0..14: day vs the model (fixed lunar dates, Qingming / winter-solstice term days, New Year's Eve = last day of the year), the day's own lookup returns it or the earlier-listed one, next(n) for 11 step counts; every lunar date of 1900..2100 (quick 1990..2030) by date. Legal holidays: all records framed independently (13 chars): real date, strictly increasing, offset target is a rest day of the table, lookup returns exactly the record, membership of every civil date 2000..2030, next(n) for every n from two before the table start to two past its end (quick: 12 step counts incl. both ends), pair law. Festivals also jump to fixed far targets (|n| up to 130,000, both signs); holiday membership also of every date whose 8 digits occur anywhere in the packed table text and of the first / last day of every month of 0001..9999; festival kind (date / term / eve) and the term a term festival is tied to; a holiday record reached by next(n) is the whole record (date, work flag, name).",
        "Lunar festivals of the reform-era years 7-26 / 235-241 are left to C02/C03.",
        "exhaustive enumeration of dates / indices / table records with independently framed records and table-derived festival dates",
        "DESIGN.md 2/C20"),
    "C06": (
        "Explicit-state exploration against the library's own term table (240,024 terms, years 0..10000): (a) every adjacent pair strictly increasing 14.6-15.8 d apart; (b) from_index(y,i) for i in -30..54, from_name, Jie/Qi parity and next(n), n in -50..50, for every year x 24 terms equal the table entry n places away; (c) every civil date (thorough: all; quick: windows): get_term_day / get_term = latest term whose day <= date with index = days elapsed; (d) every term's second-rounded instant -1 s/+0/+1 s and two instants of every window date for SolarTime::get_term. The quick tier also checks the day of every term of 1..9999, the day before and the day after.",
        "A term's start is the instant/day the library reports for it (judged astronomically in C05). Days of January 0001 before the first term day are outside the claim (governing term in 1 BC).",
        "explicit-state enumeration of all terms / dates / boundary instants against the global term sequence",
        "DESIGN.md 2/C06"),
    "C07": (
        "Every civil date (thorough: all 3,652,061; quick: windows) x five routes: LunarDay pillar, SixtyCycleDay pillar, SolarDay/JulianDay/LunarDay weekday, compared with the closed forms (JDN+49) mod 60 and (JDN+1) mod 7 of the odometer's day number; since every date is compared with a function of the day number, every adjacent pair (month/year ends, 1582 cut-over, all lunar month boundaries) is covered. Also: the weekday of four instants inside each day, SixtyCycleDay::from_solar_day / LunarDay::get_sixty_cycle_day on every fifth date, (quick) every 11th date of the whole range, and a lunar day with filled views stepped by +-1 day, the sexagenary-day view stepped by +-1, +-14, 30 (every day of Sept/Oct 1582), a LunarHour stepped over midnight.",
        "Trusted: odometer JDN. Known finding: the 160 reform-era dates whose lunar label is wrong (C02) inherit a wrong pillar/weekday through the lunar routes.",
        "explicit-state enumeration of all dates x routes against closed forms of the day number",
        "DESIGN.md 2/C07"),
    "C08": (
        "Day view: every civil date from the Lichun day of year 1 to 9998-12-31 (thorough all, quick windows): year pillar (Y-4) mod 60 with Y switching on the Lichun day, month branch counted from the Jie days of the library's term table, month stem by Five Tigers typed from the rhyme, index in year; on every Jie day the month object's first day / next / previous. Time view: all 119,976 Jie instants -1 s/+0/+1 s plus four hours of every window date. All sexagenary years -1..9999: year pillar, first month, 12 months by list and by index. Three further public routes (SixtyCycleDay::from_solar_day, LunarDay::get_sixty_cycle_day, the deprecated LunarDay / LunarHour getters, LunarHour::get_sixty_cycle_hour); month objects stepped by 19 step counts incl. negative multiples of 12; the quick tier visits every Jie day of all years and the day before; SixtyCycleMonth::from_index with indexes outside 0..=11; dates of sexagenary year 0 (0001-01-06..02-04) included; the 12 hour slots listed on every Jie day carry the pillars of their own instants.",
        "Jie days/instants are the library's own (C05/C06 judge them).",
        "explicit-state enumeration of all dates / all Jie boundary instants against term-table + pillar algebra model",
        "DESIGN.md 2/C08"),
    "C09": (
        "(a) 3 eras x 60 consecutive days x 24 hours x 2 clock times: hour branch/stem (Five Rats from the day the hour belongs to), index in day, 23:00 day roll, default and LunarSect2 providers; (b) every hour of every date of the windows: eight characters = year, month, day(+1 at 23h), hour pillars from the model; (c) inverse search on every double-hour of every day of fully enumerated years (quick 1 year x 2 ranges; thorough 5 eras x 2 years x 9 ranges [y-60k, y+60k']): every returned instant recomputes to the same characters, and a double-hour containing no Jie instant contains at least one returned instant. Also Jie-instant probes, the deprecated LunarHour getters on every fifth hour, stepping of a LunarHour whose lazy views are filled, searches for characters that never occur, January windows of the eras whose Xiaohan falls in December, the late Zi hour of 31 December against ranges ending in that year, the deprecated EightChar::get_duty, the hour lists of both day objects (every third date and every Jie day), every hour of every 577th (quick) / 7th (thorough) date of the whole range.",
        "Double-hours containing a Jie instant are skipped as the property states. Known finding: instants of the 160 reform-era dates (C02) inherit the wrong lunar day.",
        "explicit-state enumeration of hour lattices and exhaustive inverse-search conformance on enumerated day windows",
        "DESIGN.md 2/C09"),
    "C11": (
        "42 cyclic types: every element x 23 step counts (0, +-1, +-2, +-(size-1), +-size, +-(size+1), +-(2size+1), +-1000003) x all ordered pairs (pair law next(a).next(b) = next(a+b)), from_index over -2size..3size, from_name of every published name (least index for repeated names), and every name of every other cycle plus near misses must be refused. Linear units (solar year/half/season/month, lunar year, sexagenary year/month incl. year -1, Julian day, solar/lunar/sexagenary day, solar time, sexagenary hour, lunar hour in 2 h steps): ordinal models, all values for the cheap units (quick: thinned), boundary lattices for day/instant units, all step pairs from per-unit alphabets with results kept in range. Step counts now 23 (incl. beyond 2^31, 2^32, 2^40); recombined names refused; further units: multi-decade lunar-month steps, raw out-of-range indices of SolarTerm / SixtyCycleMonth::from_index, LunarWeek / SolarWeek on 10 lunar / 4 civil years.",
        "Lunar months, terms, weeks and festivals are stepped exhaustively in C03, C06, C14, C20; name contents are judged by C19. Fixed: SixtyCycleMonth year carry. Elements taken out of SixtyCycleMonth::get_days() are stepped by 0, +-1, 7, -30 and compared with the sexagenary day built afresh from the civil date.",
        "exhaustive enumeration of cycle elements x step-count pairs against Z/size; ordinal-model conformance for linear units",
        "DESIGN.md 2/C11"),
    "C12": (
        "Instant lattice {00:00:00, 00:00:01, 11:59:59, 12:00:00, 23:59:58, 23:59:59} of every civil day (thorough) or of month-boundary days of the windows, of every 25th year and Sept/Oct 1582 (quick) x next(n) for 31 step sizes up to +-10^9 s, subtract, before/after; instant -> Julian date -> instant for those and for every second of 6 chosen days; fractional Julian dates +-1 s in 0.1 s steps around hh:59:59 carry points (all 24 on boundary days, 3 on other days) must give a valid instant within 0.5 s. JulianDay::get_solar_day of those fractional dates must name the containing day or the day of the rounded instant; the Julian date stepped by whole days converts to the instant that many days later.",
        "Oracle: instant ordinal = 86400 * odometer day + second of day. 'Random instants' of the property are replaced by these fully enumerated lattices.",
        "explicit-state enumeration of an instant lattice x step alphabet against an instant-ordinal model",
        "DESIGN.md 2/C12"),
    "C10": (
        "Four explorers. (1) Explicit-state BFS over the real process-wide memo: state = canonical memo snapshot + poison flags (read through the verif hooks), transition = one request of an alphabet built to collide under every plausible keying plus refused requests; run to a fixpoint on the core alphabet (quick 256 states / thorough 4096) and to depth 2/3 on the full alphabet incl. walkers and the provider locks; every answer must equal the cold answer and the cache-free constructor. (2) Value-level lazy fields: every sequence of <= 3 of 18 / 15 observers on LunarDay/LunarHour values (incl. equality and order against fresh values, the day reached through an hour, hours of Jie days) vs a fresh value. (3) generic histories: 576 / 3,200 (date, observer) requests on a collision-prone grid, cold answer of each from its own fresh OS process, then one in-process history containing every ordered pair adjacently. (3b) one long history (all 123,684 lunar months requested, then requested again: every repeated answer = cache-free constructor) and the order-independence invariant of the leap table (decoded table via hook: no year in two lists, get_leap_month of every year = its list). (4) loom (DPOR) over the repository's own source files compiled against loom's Mutex/lazy_static: 2-4 threads x 1-3 requests on colliding keys, nested provider->memo locks and Err-refusals, preemption bounds 0,1,2,(3), unbounded for the small harnesses; every complete schedule's answers must equal the cold answers; loom reports deadlocks.",
        "The '16 OS threads' clause is replaced by exhaustive loom schedules of small harnesses (a free-running stress run would be sampling). loom cannot unwind through a held loom MutexGuard, so panicking refusals are decided by the sequential explorer on std's Mutex (which has poisoning); data races on the !Sync lazy fields are excluded by the compiler (no unsafe).",
        "explicit-state BFS over memo states against cold answers + loom bounded-preemption schedule exploration of the real source",
        "DESIGN.md 2/C10"),
}

NOT_YET = "check not built yet in this round (planned in DESIGN.md section 2); not claimed until it has run clean and caught a seeded change"

def main():
    props = [json.loads(l) for l in open('/verif/properties.jsonl')]
    checks, na = [], []
    for p in props:
        i = p['id']
        if i in CLAIMED:
            text, note, tech, ref = CLAIMED[i]
            checks.append({
                "property_id": i,
                "quick_cmd": "./check %s --tier quick" % i,
                "thorough_cmd": "./check %s --tier thorough" % i,
                "evidence_file": "/verif/evidence/%s.json" % i,
                "replay_cmd_template": "./check --replay {path}",
                "engine": "tyme-mc" if i != "C10" else "tyme-mc + tyme-mc-loom",
                "level_claimed": {"category": "model_checking", "text": text, "design_ref": ref},
                "level_note": note,
                "technique": tech,
            })
        else:
            na.append({"property_id": i, "reason": NOT_YET})
    m = {
        "version": 1,
        "setup_cmd": "./check --setup",
        "hooks": {
            "guard": "--cfg tyme4rs_verif (memo reset/snapshot/poison probes, decoded leap-month table) and --cfg tyme4rs_verif_loom (loom sync types); both rustc cfg flags, off by default",
            "enable": "RUSTFLAGS='--cfg tyme4rs_verif' via /verif/mc/.cargo/config.toml (path dependency on /repo); '--cfg tyme4rs_verif --cfg tyme4rs_verif_loom' via /verif/mc-loom/.cargo/config.toml (build.rs copies /repo/src/tyme into OUT_DIR rewriting every sync primitive to loom's; fallback feature 'plain' #[path]-includes /repo/src/tyme/mod.rs)",
            "baseline_off_cmd": "cd /repo && (cargo nextest run --workspace --no-fail-fast --test-threads 8 --offline || cargo test --workspace --no-fail-fast --offline)",
            "source_commits": HOOK_COMMITS,
            "add_only": True,
        },
        "engines": [
            {"name": "tyme-mc", "path": "/verif/mc", "serves_properties": [c["property_id"] for c in checks],
             "kind_free_text": "explicit-state explorer: enumerates complete finite state sets (dates, lunations, terms, cycle elements, histories) and step alphabets on the real tyme4rs API, compares every state/transition with a reference model; 16 worker threads"},
            {"name": "tyme-mc-loom", "path": "/verif/mc-loom", "serves_properties": ["C10"] if "C10" in CLAIMED else [],
             "kind_free_text": "loom (DPOR, bounded preemptions) over the repository's own source files compiled against loom's Mutex/lazy_static"},
        ],
        "checks": checks,
        "not_applicable": na,
        "notes": "Driver: /verif/check. Known findings: /verif/known_findings.json (never written at run time). Exit 2 = machinery failure, never a verdict.",
    }
    json.dump(m, open('/verif/MANIFEST.json', 'w'), indent=1, ensure_ascii=False)
    print("claimed", len(checks), "not_applicable", len(na))

if __name__ == "__main__":
    main()
