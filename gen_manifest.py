#!/usr/bin/env python3
"""Regenerates /verif/MANIFEST.json from the table below (keeps the manifest valid and in one place)."""
import json, subprocess

HOOK_COMMITS = ["c290b2b"]

# id -> (level text, level note, technique, design ref)
CLAIMED = {
    "C01": (
        "Explicit-state exploration of the real SolarDay/JulianDay code in lock-step with a day-counting odometer of the civil calendar: "
        "all 3,652,061 dates x 34 step sizes x every observer (to/from day count at 3 fractions, next, subtract, order, day-of-year) and all "
        "4.6M candidate (year,month,day) triples for acceptance, plus year/month lengths and leap flags of every year. The space is finite and is "
        "enumerated completely in both tiers, so any constant/threshold/leap-rule slip that changes one date is seen.",
        "Trusted: the odometer reference model (cross-checked at start-up against integer closed-form JDN formulas) and f64 determinism on one machine. Steps whose result leaves 0001..9999 are outside the claim.",
        "explicit-state enumeration of all dates x step alphabet against a civil-calendar odometer model",
        "DESIGN.md 2/C01"),
}

NOT_YET = "check not built yet in this round (planned in DESIGN.md section 2); not claimed until it has run clean and caught a seeded change"

def main():
    props = [json.loads(l) for l in open('/verif/properties.jsonl')]
    checks, na = [], []
    for p in props:
        i = p['id']
        if i in CLAIMED:
            text, note, tech, ref = CLAIMED[i]
            checks.append({
                "property_id": i,
                "quick_cmd": "./check %s --tier quick" % i,
                "thorough_cmd": "./check %s --tier thorough" % i,
                "evidence_file": "/verif/evidence/%s.json" % i,
                "replay_cmd_template": "./check --replay {path}",
                "engine": "tyme-mc" if i != "C10" else "tyme-mc + tyme-mc-loom",
                "level_claimed": {"category": "model_checking", "text": text, "design_ref": ref},
                "level_note": note,
                "technique": tech,
            })
        else:
            na.append({"property_id": i, "reason": NOT_YET})
    m = {
        "version": 1,
        "setup_cmd": "./check --setup",
        "hooks": {
            "guard": "--cfg tyme4rs_verif (memo reset/snapshot/poison probes) and --cfg tyme4rs_verif_loom (loom sync types); both rustc cfg flags, off by default",
            "enable": "RUSTFLAGS='--cfg tyme4rs_verif' via /verif/mc/.cargo/config.toml (path dependency on /repo); '--cfg tyme4rs_verif --cfg tyme4rs_verif_loom' via /verif/mc-loom/.cargo/config.toml (#[path]-includes /repo/src/tyme/mod.rs)",
            "baseline_off_cmd": "cd /repo && (cargo nextest run --workspace --no-fail-fast --test-threads 8 --offline || cargo test --workspace --no-fail-fast --offline)",
            "source_commits": HOOK_COMMITS,
            "add_only": True,
        },
        "engines": [
            {"name": "tyme-mc", "path": "/verif/mc", "serves_properties": [c["property_id"] for c in checks],
             "kind_free_text": "explicit-state explorer: enumerates complete finite state sets (dates, lunations, terms, cycle elements, histories) and step alphabets on the real tyme4rs API, compares every state/transition with a reference model; 16 worker threads"},
            {"name": "tyme-mc-loom", "path": "/verif/mc-loom", "serves_properties": ["C10"] if "C10" in CLAIMED else [],
             "kind_free_text": "loom (DPOR, bounded preemptions) over the repository's own source files compiled against loom's Mutex/lazy_static"},
        ],
        "checks": checks,
        "not_applicable": na,
        "notes": "Driver: /verif/check. Known findings: /verif/known_findings.json (never written at run time). Exit 2 = machinery failure, never a verdict.",
    }
    json.dump(m, open('/verif/MANIFEST.json', 'w'), indent=1, ensure_ascii=False)
    print("claimed", len(checks), "not_applicable", len(na))

if __name__ == "__main__":
    main()
