//! tyme-mc: explicit-state exploration of the real tyme4rs implementation in lock-step with
//! reference models. Usage:
//!   tyme-mc run <Cxx> <quick|thorough> <seed> <result.json>
//!   tyme-mc replay <Cxx> <result.json> <check> <args...>
#![allow(dead_code)]
mod engine;
mod props;
mod refmodel;

use engine::{Ctx, Tier};

fn dispatch(prop: &str, ctx: &Ctx, replay: Option<&[String]>) -> bool {
  macro_rules! p {
    ($m:ident) => {{
      match replay {
        None => props::$m::run(ctx),
        Some(a) => props::$m::replay(ctx, a),
      }
      true
    }};
  }
  match prop {
    "C01" => p!(c01),
    "C02" => p!(c02),
    "C03" => p!(c03),
    "C04" => p!(c04),
    "C05" => p!(c05),
    "C06" => p!(c06),
    "C07" => p!(c07),
    "C08" => p!(c08),
    "C09" => p!(c09),
    "C10" => p!(c10),
    "C11" => p!(c11),
    "C12" => p!(c12),
    "C13" => p!(c13),
    "C14" => p!(c14),
    "C15" => p!(c15),
    "C16" => p!(c16),
    "C17" => p!(c17),
    "C18" => p!(c18),
    "C19" => p!(c19),
    "C20" => p!(c20),
    _ => false,
  }
}

fn main() {
  let args: Vec<String> = std::env::args().collect();
  if args.len() < 4 || (args.len() < 5 && args[1] != "cold") {
    eprintln!("usage: tyme-mc run <Cxx> <quick|thorough> <seed> <result.json> | replay <Cxx> <result.json> <check> <args...>");
    std::process::exit(2);
  }
  engine::silence_panics();
  if args[1] == "cold" {
    props::c10::cold_main(args[2] == "quick", args[3].parse().unwrap());
    return;
  }
  match args[1].as_str() {
    "run" => {
      let tier = if args[3] == "thorough" { Tier::Thorough } else { Tier::Quick };
      let seed: u64 = args[4].parse().unwrap_or(0);
      let ctx: &'static Ctx = Box::leak(Box::new(Ctx::new(&args[2], tier, seed)));
      let p = engine::part();
      engine::start_watchdog(ctx, args[5].clone(), vec![args[3].clone(), seed.to_string(), p.0.to_string(), p.1.to_string()]);
      if !dispatch(&args[2], ctx, None) {
        eprintln!("unknown property {}", args[2]);
        std::process::exit(2);
      }
      ctx.write_result(&args[5]);
    }
    "replay" if args.len() > 4 && args[4] == "stuck" => {
      // replay of a non-termination report: re-run the worker that got stuck, under the same watchdog
      let tier = if args.get(8).map(|s| s.as_str()) == Some("thorough") { Tier::Thorough } else { Tier::Quick };
      let seed: u64 = args.get(9).and_then(|s| s.parse().ok()).unwrap_or(0);
      std::env::set_var("VERIF_PART", format!("{}/{}", args.get(10).cloned().unwrap_or("0".into()), args.get(11).cloned().unwrap_or("1".into())));
      println!("replay {} non-termination: re-running worker {} under the watchdog", args[2], std::env::var("VERIF_PART").unwrap());
      let ctx: &'static Ctx = Box::leak(Box::new(Ctx::new(&args[2], tier, seed)));
      engine::start_watchdog(ctx, args[3].clone(), vec![]);
      dispatch(&args[2], ctx, None);
      ctx.write_result(&args[3]);
    }
    "replay" => {
      let ctx = Ctx::new(&args[2], Tier::Thorough, 0);
      let rest: Vec<String> = args[4..].to_vec();
      if !dispatch(&args[2], &ctx, Some(&rest)) {
        eprintln!("unknown property {}", args[2]);
        std::process::exit(2);
      }
      ctx.write_result(&args[3]);
    }
    _ => {
      eprintln!("unknown command");
      std::process::exit(2);
    }
  }
}
