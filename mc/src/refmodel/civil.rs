//! Civil calendar odometer: the reference model of the proleptic Julian / Gregorian civil calendar
//! 0001-01-01 .. 9999-12-31 (Julian up to 1582-10-04, next day 1582-10-15, Gregorian after).
//! Built by *counting days*, not by any closed formula; cross-checked at start-up against an
//! integer-only closed form (two independent models must agree before either is used as an oracle).

pub type Ymd = (i32, u8, u8);

pub struct Civil {
  /// ordinal -> date; ordinal 0 = 0001-01-01
  pub days: Vec<Ymd>,
  /// year_start[y] = ordinal of y-01-01, y in 1..=10000 (10000 = one past the end)
  pub year_start: Vec<u32>,
}

/// Julian day number of ordinal 0 (0001-01-01, Julian calendar), noon-based integer
pub const JDN0: i64 = 1721424;
/// JD at 00:00 of ordinal 0
pub const JD0: f64 = 1721423.5;

pub fn is_leap(y: i32) -> bool {
  // the civil calendar of the property: Julian rule for every year before the reform took effect for
  // leap days (1582 itself is common under both rules; 1600 is the first century year under the Gregorian rule)
  if y <= 1582 {
    y % 4 == 0
  } else {
    (y % 4 == 0 && y % 100 != 0) || y % 400 == 0
  }
}

pub fn month_len(y: i32, m: u8) -> u8 {
  match m {
    1 | 3 | 5 | 7 | 8 | 10 | 12 => 31,
    4 | 6 | 9 | 11 => 30,
    2 => {
      if is_leap(y) {
        29
      } else {
        28
      }
    }
    _ => 0,
  }
}

impl Civil {
  pub fn build() -> Civil {
    let mut days: Vec<Ymd> = Vec::with_capacity(3_652_061);
    let mut year_start: Vec<u32> = vec![0; 10001];
    for y in 1..=9999i32 {
      year_start[y as usize] = days.len() as u32;
      for m in 1..=12u8 {
        for d in 1..=month_len(y, m) {
          if y == 1582 && m == 10 && d >= 5 && d <= 14 {
            continue;
          }
          days.push((y, m, d));
        }
      }
    }
    year_start[10000] = days.len() as u32;
    let c = Civil { days, year_start };
    c.self_check();
    c
  }

  pub fn len(&self) -> usize {
    self.days.len()
  }

  pub fn exists(&self, y: i64, m: i64, d: i64) -> bool {
    if y < 1 || y > 9999 || m < 1 || m > 12 || d < 1 {
      return false;
    }
    if d > month_len(y as i32, m as u8) as i64 {
      return false;
    }
    !(y == 1582 && m == 10 && d >= 5 && d <= 14)
  }

  /// ordinal of an existing date (by counting through the month table)
  pub fn ord(&self, y: i32, m: u8, d: u8) -> Option<usize> {
    if !self.exists(y as i64, m as i64, d as i64) {
      return None;
    }
    let mut o = self.year_start[y as usize] as usize;
    for mm in 1..m {
      o += self.days_in_month(y, mm) as usize;
    }
    let mut dd = d as usize - 1;
    if y == 1582 && m == 10 && d >= 15 {
      dd -= 10;
    }
    Some(o + dd)
  }

  pub fn days_in_month(&self, y: i32, m: u8) -> u8 {
    if y == 1582 && m == 10 {
      21
    } else {
      month_len(y, m)
    }
  }

  pub fn days_in_year(&self, y: i32) -> usize {
    (self.year_start[y as usize + 1] - self.year_start[y as usize]) as usize
  }

  pub fn date(&self, ord: usize) -> Ymd {
    self.days[ord]
  }

  pub fn jdn(&self, ord: usize) -> i64 {
    JDN0 + ord as i64
  }

  /// ordinal range [lo, hi) of the dates of years ylo..=yhi
  pub fn year_range(&self, ylo: i32, yhi: i32) -> (usize, usize) {
    (self.year_start[ylo as usize] as usize, self.year_start[yhi as usize + 1] as usize)
  }

  /// ordinal of the civil day on which a JD (any fraction) falls; None outside 0001..9999
  pub fn ord_of_jd(&self, jd: f64) -> Option<usize> {
    let o = (jd + 0.5).floor() as i64 - JDN0;
    if o < 0 || o as usize >= self.days.len() {
      None
    } else {
      Some(o as usize)
    }
  }

  fn self_check(&self) {
    assert_eq!(self.days.len(), 3_652_061, "odometer: number of civil days");
    // independent closed forms (integer only): Julian and Gregorian JDN (Fliegel / Richards)
    for (o, &(y, m, d)) in self.days.iter().enumerate() {
      let greg = (y, m, d) >= (1582, 10, 15);
      let j = if greg { jdn_gregorian(y as i64, m as i64, d as i64) } else { jdn_julian(y as i64, m as i64, d as i64) };
      assert_eq!(j, JDN0 + o as i64, "odometer vs closed form at {:?}", (y, m, d));
    }
    // anchor: 2000-01-01 00:00 = JD 2451544.5
    let o = self.ord(2000, 1, 1).unwrap();
    assert_eq!(JD0 + o as f64, 2451544.5);
  }
}

pub fn jdn_gregorian(y: i64, m: i64, d: i64) -> i64 {
  let a = (14 - m) / 12;
  let yy = y + 4800 - a;
  let mm = m + 12 * a - 3;
  d + (153 * mm + 2) / 5 + 365 * yy + yy.div_euclid(4) - yy.div_euclid(100) + yy.div_euclid(400) - 32045
}

pub fn jdn_julian(y: i64, m: i64, d: i64) -> i64 {
  let a = (14 - m) / 12;
  let yy = y + 4800 - a;
  let mm = m + 12 * a - 3;
  d + (153 * mm + 2) / 5 + 365 * yy + yy.div_euclid(4) - 32083
}

pub fn fmt_ymd(d: Ymd) -> String {
  format!("{:04}-{:02}-{:02}", d.0, d.1, d.2)
}
