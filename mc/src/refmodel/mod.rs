pub mod civil;
pub mod lunar;
