pub mod civil;
