pub mod civil;
pub mod lunar;
pub mod pillar;
pub mod terms;
