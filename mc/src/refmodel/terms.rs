//! The library's own solar-term table T[g], g = 24*year + index, year 0..=10000, read once through the
//! public API. Used wherever a property is *relative to* the library's terms (C06 c/d, C08, C09, C15, C16, C17);
//! the terms themselves are judged in C05 and C06 a/b.

use crate::engine::*;
use crate::refmodel::civil::*;
use std::sync::Mutex;
use tyme4rs::tyme::solar::SolarTerm;

#[derive(Clone, Copy, Debug)]
pub struct Term {
  /// precise instant (UTC+8) as a Julian date
  pub jd: f64,
  /// the library's second-rounded instant as seconds since 0001-01-01 00:00 (i64::MIN when the civil date is outside 0001..9999)
  pub inst: i64,
  /// ordinal of the civil day of that rounded instant (u32::MAX when outside)
  pub day: u32,
  /// calendar-making day (cursory), integer JD at noon
  pub cursory: i64,
}

pub struct Terms {
  pub t: Vec<Term>,
}

pub const G_MAX: usize = 24 * 10000 + 24;

pub fn g_of(y: isize, i: isize) -> isize {
  24 * y + i
}

impl Terms {
  pub fn build(ctx: &Ctx, civ: &Civil) -> Terms {
    Self::build_range(ctx, civ, 0, 10000)
  }

  /// entries outside [ylo, yhi] are left as NaN placeholders
  pub fn build_range(ctx: &Ctx, civ: &Civil, ylo: usize, yhi: usize) -> Terms {
    let out: Mutex<Vec<(usize, Term)>> = Mutex::new(Vec::new());
    par_chunks_all(ctx, ylo, yhi + 1, 20, |a, b, _| {
      let mut loc = Vec::new();
      for y in a..b {
        for i in 0..24 {
          let t = read_term(civ, y as isize, i);
          loc.push((24 * y + i as usize, t));
        }
      }
      out.lock().unwrap().extend(loc);
    });
    let mut t = vec![Term { jd: f64::NAN, inst: i64::MIN, day: u32::MAX, cursory: i64::MIN }; G_MAX];
    for (g, x) in out.into_inner().unwrap() {
      t[g] = x;
    }
    Terms { t }
  }

  pub fn get(&self, y: isize, i: isize) -> &Term {
    &self.t[g_of(y, i) as usize]
  }

  /// latest g whose civil day <= ord (terms with a representable day only); None before the first one
  pub fn g_of_day(&self, ord: usize) -> Option<usize> {
    // estimate then walk
    let mut g = ((ord as f64 / 365.2425 + 1.0) * 24.0) as usize;
    g = g.clamp(25, G_MAX - 1);
    while g < G_MAX - 1 && self.t[g + 1].day != u32::MAX && self.t[g + 1].day as usize <= ord {
      g += 1;
    }
    while g >= 25 && (self.t[g].day == u32::MAX || self.t[g].day as usize > ord) {
      g -= 1;
    }
    if g < 25 {
      None
    } else {
      Some(g)
    }
  }

  /// latest g whose rounded instant <= inst
  pub fn g_of_inst(&self, inst: i64) -> Option<usize> {
    let ord = (inst.div_euclid(86400)) as usize;
    let mut g = self.g_of_day(ord.min(3_652_060))?;
    // g is the latest term whose day <= ord; its instant may be later the same day
    if self.t[g].inst > inst {
      g -= 1;
      if g < 25 {
        return None;
      }
    }
    Some(g)
  }
}

pub fn read_term(civ: &Civil, y: isize, i: isize) -> Term {
  let r = guard(|| {
    let t = SolarTerm::from_index(y, i);
    (t.get_julian_day().get_day(), (t.get_cursory_julian_day() + 2451545.0 + 0.5).floor() as i64)
  });
  let (jd, cursory) = r.unwrap_or((f64::NAN, i64::MIN));
  let st = guard(|| {
    let s = SolarTerm::from_index(y, i).get_julian_day().get_solar_time();
    (s.get_year() as i32, s.get_month() as u8, s.get_day() as u8, s.get_hour() as i64, s.get_minute() as i64, s.get_second() as i64)
  });
  let (inst, day) = match st {
    Ok((yy, mm, dd, h, mi, s)) => match civ.ord(yy, mm, dd) {
      Some(o) => (o as i64 * 86400 + h * 3600 + mi * 60 + s, o as u32),
      None => (i64::MIN, u32::MAX),
    },
    Err(_) => (i64::MIN, u32::MAX),
  };
  Term { jd, inst, day, cursory }
}

pub const TERM_NAMES: [&str; 24] = ["冬至", "小寒", "大寒", "立春", "雨水", "惊蛰", "春分", "清明", "谷雨", "立夏", "小满", "芒种", "夏至", "小暑", "大暑", "立秋", "处暑", "白露", "秋分", "寒露", "霜降", "立冬", "小雪", "大雪"];
