//! Sexagenary algebra, written from the classical statements (by name), not from the library's index formulas.

pub const STEMS: [&str; 10] = ["甲", "乙", "丙", "丁", "戊", "己", "庚", "辛", "壬", "癸"];
pub const BRANCHES: [&str; 12] = ["子", "丑", "寅", "卯", "辰", "巳", "午", "未", "申", "酉", "戌", "亥"];

pub fn stem_idx(name: &str) -> usize {
  STEMS.iter().position(|s| *s == name).expect("stem name")
}

pub fn branch_idx(name: &str) -> usize {
  BRANCHES.iter().position(|s| *s == name).expect("branch name")
}

/// name of the pillar with sexagenary index i (0 = 甲子): stem i mod 10, branch i mod 12
pub fn pillar_name(i: i64) -> String {
  let k = i.rem_euclid(60) as usize;
  format!("{}{}", STEMS[k % 10], BRANCHES[k % 12])
}

pub fn pillar_of(stem: usize, branch: usize) -> String {
  format!("{}{}", STEMS[stem % 10], BRANCHES[branch % 12])
}

/// sexagenary index of a pillar name (None if the pair has mixed parity / unknown characters)
pub fn pillar_idx(name: &str) -> Option<usize> {
  (0..60).find(|&i| pillar_name(i as i64) == name)
}

/// day pillar index of a Julian day number: (JDN + 49) mod 60
pub fn day_pillar(jdn: i64) -> i64 {
  (jdn + 49).rem_euclid(60)
}

/// weekday of a Julian day number, 0 = Sunday: (JDN + 1) mod 7
pub fn weekday(jdn: i64) -> i64 {
  (jdn + 1).rem_euclid(7)
}

/// year pillar index of (sexagenary) year Y: (Y - 4) mod 60
pub fn year_pillar(y: i64) -> i64 {
  (y - 4).rem_euclid(60)
}

/// Five Tigers (五虎遁): stem of the 寅 month for a year stem.
/// 甲己之年丙作首，乙庚之岁戊为头，丙辛必定寻庚起，丁壬壬位顺行流，戊癸何方发，甲寅之上好追求。
pub fn five_tigers(year_stem: &str) -> &'static str {
  match year_stem {
    "甲" | "己" => "丙",
    "乙" | "庚" => "戊",
    "丙" | "辛" => "庚",
    "丁" | "壬" => "壬",
    "戊" | "癸" => "甲",
    _ => panic!("stem"),
  }
}

/// Five Rats (五鼠遁): stem of the 子 hour for a day stem.
/// 甲己还加甲，乙庚丙作初，丙辛从戊起，丁壬庚子居，戊癸何方发，壬子是真途。
pub fn five_rats(day_stem: &str) -> &'static str {
  match day_stem {
    "甲" | "己" => "甲",
    "乙" | "庚" => "丙",
    "丙" | "辛" => "戊",
    "丁" | "壬" => "庚",
    "戊" | "癸" => "壬",
    _ => panic!("stem"),
  }
}

/// month pillar name: year Y (Lichun year), k-th month counted from 寅 (k = 0..11)
pub fn month_pillar(y: i64, k: usize) -> String {
  let ys = STEMS[(year_pillar(y) % 10) as usize];
  let first = stem_idx(five_tigers(ys));
  pillar_of(first + k, 2 + k)
}

/// hour pillar name: day stem (of the day the hour belongs to, i.e. the next day from 23:00) and clock hour
pub fn hour_pillar(day_stem: usize, hour: usize) -> String {
  let b = ((hour + 1) / 2) % 12;
  let first = stem_idx(five_rats(STEMS[day_stem % 10]));
  pillar_of(first + b, b)
}
