//! The library's own lunation table, read through the public API, laid out in the order the *model* prescribes:
//! years ascending, months 1..12, a leap month directly after the regular month of the same number.
//! Used as the state set of C02/C03/C04/C13/C14 (the table itself is judged by C03/C04/C05).

use crate::engine::*;
use std::sync::Mutex;
use tyme4rs::tyme::lunar::{LunarMonth, LunarYear};

#[derive(Clone, Copy, Debug, PartialEq)]
pub struct Lun {
  pub y: i32,
  /// signed month: negative = leap
  pub m: i8,
  pub days: u8,
  /// JD (at 12:00, i.e. integer-valued) of the first day
  pub jd: i64,
  pub idx: u8,
  /// false when the implementation refused to construct this month
  pub ok: bool,
}

impl Lun {
  pub fn key(&self) -> String {
    lkey(self.y as isize, self.m as isize)
  }
}

pub fn lkey(y: isize, m: isize) -> String {
  format!("{:04}-{:02}{}", y, m.abs(), if m < 0 { "L" } else { "" })
}

pub struct LunTable {
  pub l: Vec<Lun>,
  /// year_start[y] = index of (y,1), y in 0..=10000
  pub year_start: Vec<u32>,
  pub leap: Vec<u8>,
}

pub fn month_list(leap: usize) -> Vec<isize> {
  let mut v = Vec::new();
  for m in 1..=12isize {
    v.push(m);
    if leap as isize == m {
      v.push(-m);
    }
  }
  v
}

impl LunTable {
  pub fn build(ctx: &Ctx, ylo: isize, yhi: isize) -> LunTable {
    let per_year: Mutex<Vec<(isize, usize, Vec<Lun>)>> = Mutex::new(Vec::new());
    par_chunks_all(ctx, ylo as usize, yhi as usize + 1, 25, |a, b, _l| {
      let mut loc = Vec::new();
      for y in a..b {
        let y = y as isize;
        let leap = guard(|| LunarYear::from_year(y).get_leap_month()).unwrap_or(0);
        let mut v = Vec::new();
        for m in month_list(leap) {
          let r = guard(|| {
            let mm = LunarMonth::from_ym(y, m);
            (mm.get_day_count(), mm.get_first_julian_day().get_day(), mm.get_index_in_year())
          });
          match r {
            Ok((d, jd, idx)) => v.push(Lun { y: y as i32, m: m as i8, days: d as u8, jd: (jd + 0.5).floor() as i64, idx: idx as u8, ok: true }),
            Err(_) => v.push(Lun { y: y as i32, m: m as i8, days: 0, jd: 0, idx: 0, ok: false }),
          }
        }
        loc.push((y, leap, v));
      }
      per_year.lock().unwrap().extend(loc);
    });
    let mut py = per_year.into_inner().unwrap();
    py.sort_by_key(|x| x.0);
    let mut l = Vec::new();
    let mut year_start = vec![0u32; 10002];
    let mut leap = vec![0u8; 10001];
    let mut it = py.into_iter().peekable();
    for yy in 0..10002usize {
      year_start[yy] = l.len() as u32;
      if let Some((y, _, _)) = it.peek() {
        if *y as usize == yy {
          let (_, lp, v) = it.next().unwrap();
          leap[yy] = lp as u8;
          l.extend(v);
        }
      }
    }
    LunTable { l, year_start, leap }
  }

  pub fn year_slice(&self, y: isize) -> &[Lun] {
    &self.l[self.year_start[y as usize] as usize..self.year_start[y as usize + 1] as usize]
  }

  pub fn pos(&self, y: isize, m: isize) -> Option<usize> {
    let s = self.year_start[y as usize] as usize;
    let e = self.year_start[y as usize + 1] as usize;
    (s..e).find(|&i| self.l[i].m as isize == m)
  }
}
