//! C19 Stem and branch attributes match the classical correspondence rules.
//! Complete finite enumeration; oracle = first-principles encoding typed in *by name* (generation/overcoming
//! cycle, the direction rhymes quoted in the source, hidden stems, ten-star by relation x polarity, growth
//! stages, combinations / clashes / harms as involutions, Nayin, Xun and void, zodiac, sign boundaries,
//! foetus-spirit tables, mansion and star attributes, eight-character derived signs).

use crate::engine::*;
use crate::refmodel::pillar::*;
use tyme4rs::tyme::culture::fetus::{FetusDay, FetusMonth};
use tyme4rs::tyme::culture::ren::minor::MinorRen;
use tyme4rs::tyme::culture::star::nine::NineStar;
use tyme4rs::tyme::culture::star::twelve::TwelveStar;
use tyme4rs::tyme::culture::star::twenty_eight::TwentyEightStar;
use tyme4rs::tyme::culture::{Direction, Element, Land, Zone};
use tyme4rs::tyme::eightchar::EightChar;
use tyme4rs::tyme::enums::{HideHeavenStemType, Side, YinYang};
use tyme4rs::tyme::lunar::LunarMonth;
use tyme4rs::tyme::sixtycycle::{EarthBranch, HeavenStem, SixtyCycle};
use tyme4rs::tyme::solar::SolarDay;
use tyme4rs::tyme::{Culture, Tyme};

const ELEMENTS: [&str; 5] = ["木", "火", "土", "金", "水"];

fn generates(a: &str) -> &'static str {
  // 木生火 火生土 土生金 金生水 水生木
  match a {
    "木" => "火",
    "火" => "土",
    "土" => "金",
    "金" => "水",
    "水" => "木",
    _ => panic!(),
  }
}

fn overcomes(a: &str) -> &'static str {
  // 木克土 土克水 水克火 火克金 金克木
  match a {
    "木" => "土",
    "土" => "水",
    "水" => "火",
    "火" => "金",
    "金" => "木",
    _ => panic!(),
  }
}

fn stem_element(s: &str) -> &'static str {
  match s {
    "甲" | "乙" => "木",
    "丙" | "丁" => "火",
    "戊" | "己" => "土",
    "庚" | "辛" => "金",
    "壬" | "癸" => "水",
    _ => panic!(),
  }
}

fn stem_yang(s: &str) -> bool {
  matches!(s, "甲" | "丙" | "戊" | "庚" | "壬")
}

fn branch_element(b: &str) -> &'static str {
  match b {
    "寅" | "卯" => "木",
    "巳" | "午" => "火",
    "申" | "酉" => "金",
    "亥" | "子" => "水",
    "辰" | "戌" | "丑" | "未" => "土",
    _ => panic!(),
  }
}

fn branch_yang(b: &str) -> bool {
  matches!(b, "子" | "寅" | "辰" | "午" | "申" | "戌")
}

fn element_direction(e: &str) -> &'static str {
  match e {
    "木" => "东",
    "火" => "南",
    "土" => "中",
    "金" => "西",
    "水" => "北",
    _ => panic!(),
  }
}

/// trigram -> direction name
fn gua(g: &str) -> &'static str {
  match g {
    "坎" => "北",
    "坤" => "西南",
    "震" => "东",
    "巽" => "东南",
    "乾" => "西北",
    "兑" => "西",
    "艮" => "东北",
    "离" => "南",
    _ => panic!(),
  }
}

/// direction in which a branch lies (24-mountain reduced to 8 directions)
fn branch_seat(b: &str) -> &'static str {
  match b {
    "子" => "北",
    "丑" | "寅" => "东北",
    "卯" => "东",
    "辰" | "巳" => "东南",
    "午" => "南",
    "未" | "申" => "西南",
    "酉" => "西",
    "戌" | "亥" => "西北",
    _ => panic!(),
  }
}

fn joy(s: &str) -> &'static str {
  // 甲己在艮乙庚乾，丙辛坤位喜神安。丁壬只在离宫坐，戊癸原在在巽间。
  match s {
    "甲" | "己" => gua("艮"),
    "乙" | "庚" => gua("乾"),
    "丙" | "辛" => gua("坤"),
    "丁" | "壬" => gua("离"),
    _ => gua("巽"),
  }
}

fn yang_noble(s: &str) -> &'static str {
  // 甲戊坤艮位，乙己是坤坎，庚辛居离艮，丙丁兑与乾，震巽属何日，壬癸贵神安。
  match s {
    "甲" => gua("坤"),
    "戊" => gua("艮"),
    "乙" => gua("坤"),
    "己" => gua("坎"),
    "庚" => gua("离"),
    "辛" => gua("艮"),
    "丙" => gua("兑"),
    "丁" => gua("乾"),
    "壬" => gua("震"),
    _ => gua("巽"),
  }
}

fn yin_noble(s: &str) -> &'static str {
  // 甲戊见牛羊，乙己鼠猴乡，丙丁猪鸡位，壬癸蛇兔藏，庚辛逢虎马，此是贵神方。 (animal -> branch -> its seat)
  match s {
    "甲" => branch_seat("丑"),
    "戊" => branch_seat("未"),
    "乙" => branch_seat("子"),
    "己" => branch_seat("申"),
    "丙" => branch_seat("亥"),
    "丁" => branch_seat("酉"),
    "壬" => branch_seat("巳"),
    "癸" => branch_seat("卯"),
    "庚" => branch_seat("寅"),
    _ => branch_seat("午"),
  }
}

fn wealth(s: &str) -> &'static str {
  // 甲乙东北是财神，丙丁向在西南寻，戊己正北坐方位，庚辛正东去安身，壬癸原来正南坐
  match s {
    "甲" | "乙" => "东北",
    "丙" | "丁" => "西南",
    "戊" | "己" => "北",
    "庚" | "辛" => "东",
    _ => "南",
  }
}

fn fortune(s: &str) -> &'static str {
  // 甲乙东南是福神，丙丁正东是堪宜，戊北己南庚辛坤，壬在乾方癸在西。
  match s {
    "甲" | "乙" => "东南",
    "丙" | "丁" => "东",
    "戊" => "北",
    "己" => "南",
    "庚" | "辛" => gua("坤"),
    "壬" => gua("乾"),
    _ => "西",
  }
}

/// 地支藏干: (main, middle, residual)
fn hidden(b: &str) -> (&'static str, Option<&'static str>, Option<&'static str>) {
  match b {
    "子" => ("癸", None, None),
    "丑" => ("己", Some("癸"), Some("辛")),
    "寅" => ("甲", Some("丙"), Some("戊")),
    "卯" => ("乙", None, None),
    "辰" => ("戊", Some("乙"), Some("癸")),
    "巳" => ("丙", Some("庚"), Some("戊")),
    "午" => ("丁", Some("己"), None),
    "未" => ("己", Some("丁"), Some("乙")),
    "申" => ("庚", Some("壬"), Some("戊")),
    "酉" => ("辛", None, None),
    "戌" => ("戊", Some("辛"), Some("丁")),
    "亥" => ("壬", Some("甲"), None),
    _ => panic!(),
  }
}

fn ten_star(me: &str, other: &str) -> &'static str {
  let (a, b) = (stem_element(me), stem_element(other));
  let same = stem_yang(me) == stem_yang(other);
  if a == b {
    if same {
      "比肩"
    } else {
      "劫财"
    }
  } else if generates(a) == b {
    if same {
      "食神"
    } else {
      "伤官"
    }
  } else if overcomes(a) == b {
    if same {
      "偏财"
    } else {
      "正财"
    }
  } else if overcomes(b) == a {
    if same {
      "七杀"
    } else {
      "正官"
    }
  } else if same {
    "偏印"
  } else {
    "正印"
  }
}

const TERRAINS: [&str; 12] = ["长生", "沐浴", "冠带", "临官", "帝旺", "衰", "病", "死", "墓", "绝", "胎", "养"];

fn birth_branch(s: &str) -> &'static str {
  match s {
    "甲" => "亥",
    "丙" | "戊" => "寅",
    "庚" => "巳",
    "壬" => "申",
    "乙" => "午",
    "丁" | "己" => "酉",
    "辛" => "子",
    _ => "卯",
  }
}

fn stem_combine(s: &str) -> (&'static str, &'static str) {
  // 甲己合化土，乙庚合化金，丙辛合化水，丁壬合化木，戊癸合化火
  match s {
    "甲" => ("己", "土"),
    "己" => ("甲", "土"),
    "乙" => ("庚", "金"),
    "庚" => ("乙", "金"),
    "丙" => ("辛", "水"),
    "辛" => ("丙", "水"),
    "丁" => ("壬", "木"),
    "壬" => ("丁", "木"),
    "戊" => ("癸", "火"),
    _ => ("戊", "火"),
  }
}

fn branch_combine(b: &str) -> (&'static str, &'static str) {
  // 子丑合土 寅亥合木 卯戌合火 辰酉合金 巳申合水 午未合土
  match b {
    "子" => ("丑", "土"),
    "丑" => ("子", "土"),
    "寅" => ("亥", "木"),
    "亥" => ("寅", "木"),
    "卯" => ("戌", "火"),
    "戌" => ("卯", "火"),
    "辰" => ("酉", "金"),
    "酉" => ("辰", "金"),
    "巳" => ("申", "水"),
    "申" => ("巳", "水"),
    "午" => ("未", "土"),
    _ => ("午", "土"),
  }
}

fn clash(b: &str) -> &'static str {
  match b {
    "子" => "午",
    "午" => "子",
    "丑" => "未",
    "未" => "丑",
    "寅" => "申",
    "申" => "寅",
    "卯" => "酉",
    "酉" => "卯",
    "辰" => "戌",
    "戌" => "辰",
    "巳" => "亥",
    _ => "巳",
  }
}

fn harm(b: &str) -> &'static str {
  // 子未 丑午 寅巳 卯辰 申亥 酉戌
  match b {
    "子" => "未",
    "未" => "子",
    "丑" => "午",
    "午" => "丑",
    "寅" => "巳",
    "巳" => "寅",
    "卯" => "辰",
    "辰" => "卯",
    "申" => "亥",
    "亥" => "申",
    "酉" => "戌",
    _ => "酉",
  }
}

fn ominous(b: &str) -> &'static str {
  // 申子辰煞南 巳酉丑煞东 寅午戌煞北 亥卯未煞西
  match b {
    "申" | "子" | "辰" => "南",
    "巳" | "酉" | "丑" => "东",
    "寅" | "午" | "戌" => "北",
    _ => "西",
  }
}

const ZODIAC: [(&str, &str); 12] = [("子", "鼠"), ("丑", "牛"), ("寅", "虎"), ("卯", "兔"), ("辰", "龙"), ("巳", "蛇"), ("午", "马"), ("未", "羊"), ("申", "猴"), ("酉", "鸡"), ("戌", "狗"), ("亥", "猪")];

const NAYIN: [(&str, &str, &str); 30] = [
  ("甲子", "乙丑", "海中金"),
  ("丙寅", "丁卯", "炉中火"),
  ("戊辰", "己巳", "大林木"),
  ("庚午", "辛未", "路旁土"),
  ("壬申", "癸酉", "剑锋金"),
  ("甲戌", "乙亥", "山头火"),
  ("丙子", "丁丑", "涧下水"),
  ("戊寅", "己卯", "城头土"),
  ("庚辰", "辛巳", "白蜡金"),
  ("壬午", "癸未", "杨柳木"),
  ("甲申", "乙酉", "泉中水"),
  ("丙戌", "丁亥", "屋上土"),
  ("戊子", "己丑", "霹雳火"),
  ("庚寅", "辛卯", "松柏木"),
  ("壬辰", "癸巳", "长流水"),
  ("甲午", "乙未", "沙中金"),
  ("丙申", "丁酉", "山下火"),
  ("戊戌", "己亥", "平地木"),
  ("庚子", "辛丑", "壁上土"),
  ("壬寅", "癸卯", "金箔金"),
  ("甲辰", "乙巳", "覆灯火"),
  ("丙午", "丁未", "天河水"),
  ("戊申", "己酉", "大驿土"),
  ("庚戌", "辛亥", "钗钏金"),
  ("壬子", "癸丑", "桑柘木"),
  ("甲寅", "乙卯", "大溪水"),
  ("丙辰", "丁巳", "沙中土"),
  ("戊午", "己未", "天上火"),
  ("庚申", "辛酉", "石榴木"),
  ("壬戌", "癸亥", "大海水"),
];

/// Xun head and the two void branches
fn xun(i: usize) -> (&'static str, [&'static str; 2]) {
  match i / 10 {
    0 => ("甲子", ["戌", "亥"]),
    1 => ("甲戌", ["申", "酉"]),
    2 => ("甲申", ["午", "未"]),
    3 => ("甲午", ["辰", "巳"]),
    4 => ("甲辰", ["寅", "卯"]),
    _ => ("甲寅", ["子", "丑"]),
  }
}

/// western zodiac sign of (month, day)
fn sign(m: usize, d: usize) -> &'static str {
  let bounds: [(usize, usize, &str); 12] = [(3, 21, "白羊"), (4, 20, "金牛"), (5, 21, "双子"), (6, 22, "巨蟹"), (7, 23, "狮子"), (8, 23, "处女"), (9, 23, "天秤"), (10, 24, "天蝎"), (11, 23, "射手"), (12, 22, "摩羯"), (1, 20, "水瓶"), (2, 19, "双鱼")];
  // the sign whose start (month, day) is the latest one <= (m, d), the year wrapping at 摩羯
  let key = |mm: usize, dd: usize| ((mm + 9) % 12) * 100 + dd; // March = 0
  let mut best = "双鱼";
  let mut bestk = 0;
  let mut found = false;
  for (bm, bd, n) in bounds.iter() {
    let k = key(*bm, *bd);
    if k <= key(m, d) && (!found || k >= bestk) {
      best = n;
      bestk = k;
      found = true;
    }
  }
  if !found {
    "双鱼" // 1 - 20 March precede the first boundary of the March-based year
  } else {
    best
  }
}

const MANSIONS: [(&str, &str, &str, &str, &str, &str); 28] = [
  // (name, zone, luminary, animal, land, luck)
  ("角", "东", "木", "蛟", "钧天", "吉"),
  ("亢", "东", "金", "龙", "钧天", "凶"),
  ("氐", "东", "土", "貉", "钧天", "凶"),
  ("房", "东", "日", "兔", "苍天", "吉"),
  ("心", "东", "月", "狐", "苍天", "凶"),
  ("尾", "东", "火", "虎", "苍天", "吉"),
  ("箕", "东", "水", "豹", "变天", "吉"),
  ("斗", "北", "木", "獬", "变天", "吉"),
  ("牛", "北", "金", "牛", "变天", "凶"),
  ("女", "北", "土", "蝠", "玄天", "凶"),
  ("虚", "北", "日", "鼠", "玄天", "凶"),
  ("危", "北", "月", "燕", "玄天", "凶"),
  ("室", "北", "火", "猪", "玄天", "吉"),
  ("壁", "北", "水", "獝", "幽天", "吉"),
  ("奎", "西", "木", "狼", "幽天", "凶"),
  ("娄", "西", "金", "狗", "幽天", "吉"),
  ("胃", "西", "土", "彘", "颢天", "吉"),
  ("昴", "西", "日", "鸡", "颢天", "凶"),
  ("毕", "西", "月", "乌", "颢天", "吉"),
  ("觜", "西", "火", "猴", "朱天", "凶"),
  ("参", "西", "水", "猿", "朱天", "吉"),
  ("井", "南", "木", "犴", "朱天", "吉"),
  ("鬼", "南", "金", "羊", "炎天", "凶"),
  ("柳", "南", "土", "獐", "炎天", "凶"),
  ("星", "南", "日", "马", "炎天", "凶"),
  ("张", "南", "月", "鹿", "阳天", "吉"),
  ("翼", "南", "火", "蛇", "阳天", "凶"),
  ("轸", "南", "水", "蚓", "阳天", "吉"),
];

fn zone_beast(z: &str) -> &'static str {
  match z {
    "东" => "青龙",
    "北" => "玄武",
    "西" => "白虎",
    _ => "朱雀",
  }
}

const LANDS: [(&str, &str); 9] = [("钧天", "中"), ("苍天", "东"), ("变天", "东北"), ("玄天", "北"), ("幽天", "西北"), ("颢天", "西"), ("朱天", "西南"), ("炎天", "南"), ("阳天", "东南")];

const NINE: [(&str, &str, &str, &str, &str); 9] = [
  // (number, colour, element, direction, dipper star)
  ("一", "白", "水", "北", "天枢"),
  ("二", "黑", "土", "西南", "天璇"),
  ("三", "碧", "木", "东", "天玑"),
  ("四", "绿", "木", "东南", "天权"),
  ("五", "黄", "土", "中", "玉衡"),
  ("六", "白", "金", "西北", "开阳"),
  ("七", "赤", "金", "西", "摇光"),
  ("八", "白", "土", "东北", "洞明"),
  ("九", "紫", "火", "南", "隐元"),
];

const TWELVE: [(&str, &str); 12] = [("青龙", "黄道"), ("明堂", "黄道"), ("天刑", "黑道"), ("朱雀", "黑道"), ("金匮", "黄道"), ("天德", "黄道"), ("白虎", "黑道"), ("玉堂", "黄道"), ("天牢", "黑道"), ("玄武", "黑道"), ("司命", "黄道"), ("勾陈", "黑道")];

const MINOR_REN: [(&str, &str, &str); 6] = [("大安", "吉", "木"), ("留连", "凶", "水"), ("速喜", "吉", "火"), ("赤口", "凶", "金"), ("小吉", "吉", "木"), ("空亡", "凶", "土")];

fn fetus_stem(s: &str) -> &'static str {
  // 甲己之日占在门，乙庚碓磨休移动。丙辛厨灶莫相干，丁壬仓库忌修弄。戊癸房床若移整
  match s {
    "甲" | "己" => "门",
    "乙" | "庚" => "碓磨",
    "丙" | "辛" => "厨灶",
    "丁" | "壬" => "仓库",
    _ => "房床",
  }
}

fn fetus_branch(b: &str) -> &'static str {
  // 子午二日碓须忌，丑未厕道莫修移。寅申火炉休要动，卯酉大门修当避。辰戌鸡栖巳亥床
  match b {
    "子" | "午" => "碓",
    "丑" | "未" => "厕",
    "寅" | "申" => "炉",
    "卯" | "酉" => "门",
    "辰" | "戌" => "栖",
    _ => "床",
  }
}

/// 逐日胎神方位: (inside?, accepted direction names) by pillar index
fn fetus_place(i: usize) -> (bool, Vec<&'static str>) {
  match i {
    0..=1 => (false, vec!["东南"]),
    2..=6 => (false, vec!["南"]),
    7..=12 => (false, vec!["西南"]),
    13..=17 => (false, vec!["西"]),
    18..=23 => (false, vec!["西北"]),
    24..=28 => (false, vec!["北"]),
    29..=33 => (true, vec!["北"]),
    // 戊戌 己亥 戊申: printed almanacs give 房内中 or 房内南; both are accepted
    34..=35 => (true, vec!["中", "南"]),
    36..=38 => (true, vec!["南"]),
    39 => (true, vec!["西"]),
    40..=43 => (true, vec!["东"]),
    44 => (true, vec!["中", "南"]),
    45..=50 => (false, vec!["东北"]),
    51..=55 => (false, vec!["东"]),
    _ => (false, vec!["东南"]),
  }
}

const FETUS_MONTH: [&str; 12] = ["占房床", "占户窗", "占门堂", "占厨灶", "占房床", "占床仓", "占碓磨", "占厕户", "占门房", "占房床", "占灶炉", "占房床"];

macro_rules! expect {
  ($ctx:expr, $loc:expr, $check:expr, $key:expr, $got:expr, $want:expr) => {{
    $loc.transitions += 1;
    match guard(|| $got) {
      Ok(g) => {
        let w = $want;
        if g != w {
          $ctx.violation($check, $key.to_string(), format!("impl {:?}, classical rule {:?}", g, w), vec!["all".to_string()]);
        }
      }
      Err(m) => $ctx.violation($check, $key.to_string(), format!("panics: {}", m), vec!["all".to_string()]),
    }
  }};
}

fn yy(y: YinYang) -> bool {
  y == YinYang::YANG
}

pub fn run(ctx: &Ctx) {
  ctx.assume("reference = first-principles encoding typed by name from the classical statements (rhymes quoted in the source comments, 地支藏干, 十神 by element relation x polarity, 长生 start branches, 五合/六合/六冲/六害, 纳音, 旬空, 二十八宿 with 七曜/禽/九野/吉凶, 九星 colours/elements/directions, 黄黑道, 小六壬, 胎神 tables, sign boundaries); for the three days 戊戌 己亥 戊申 of the daily foetus-spirit table both printed variants (房内中 / 房内南) are accepted");
  let mut l = Local::default();
  // ---- stems
  for s in 0..10usize {
    let sn = STEMS[s];
    l.states += 1;
    let hs = || HeavenStem::from_name(sn);
    expect!(ctx, l, "stem_element", format!("stem {}", sn), hs().get_element().get_name(), stem_element(sn).to_string());
    expect!(ctx, l, "stem_polarity", format!("stem {}", sn), yy(hs().get_yin_yang()), stem_yang(sn));
    expect!(ctx, l, "stem_direction", format!("stem {} direction", sn), hs().get_direction().get_name(), element_direction(stem_element(sn)).to_string());
    expect!(ctx, l, "stem_direction", format!("stem {} joy", sn), hs().get_joy_direction().get_name(), joy(sn).to_string());
    expect!(ctx, l, "stem_direction", format!("stem {} yang noble", sn), hs().get_yang_direction().get_name(), yang_noble(sn).to_string());
    expect!(ctx, l, "stem_direction", format!("stem {} yin noble", sn), hs().get_yin_direction().get_name(), yin_noble(sn).to_string());
    expect!(ctx, l, "stem_direction", format!("stem {} wealth", sn), hs().get_wealth_direction().get_name(), wealth(sn).to_string());
    expect!(ctx, l, "stem_direction", format!("stem {} fortune", sn), hs().get_mascot_direction().get_name(), fortune(sn).to_string());
    let (partner, el) = stem_combine(sn);
    expect!(ctx, l, "stem_combine", format!("stem {} combine", sn), hs().get_combine().get_name(), partner.to_string());
    expect!(ctx, l, "stem_combine", format!("stem {} combine involution", sn), hs().get_combine().get_combine().get_name(), sn.to_string());
    for t in 0..10usize {
      let tn = STEMS[t];
      expect!(ctx, l, "ten_star", format!("ten star {} -> {}", sn, tn), hs().get_ten_star(HeavenStem::from_name(tn)).get_name(), ten_star(sn, tn).to_string());
      expect!(ctx, l, "stem_combine", format!("stem {} combine({})", sn, tn), hs().combine(HeavenStem::from_name(tn)).map(|e| e.get_name()), if tn == partner { Some(el.to_string()) } else { None });
    }
    for b in 0..12usize {
      let bn = BRANCHES[b];
      let start = branch_idx(birth_branch(sn));
      let idx = if stem_yang(sn) { (b + 12 - start) % 12 } else { (start + 12 - b) % 12 };
      expect!(ctx, l, "terrain", format!("terrain {} at {}", sn, bn), hs().get_terrain(EarthBranch::from_name(bn)).get_name(), TERRAINS[idx].to_string());
    }
  }
  // ---- branches
  for b in 0..12usize {
    let bn = BRANCHES[b];
    l.states += 1;
    let eb = || EarthBranch::from_name(bn);
    expect!(ctx, l, "branch_element", format!("branch {}", bn), eb().get_element().get_name(), branch_element(bn).to_string());
    expect!(ctx, l, "branch_polarity", format!("branch {}", bn), yy(eb().get_yin_yang()), branch_yang(bn));
    expect!(ctx, l, "branch_direction", format!("branch {} direction", bn), eb().get_direction().get_name(), element_direction(branch_element(bn)).to_string());
    expect!(ctx, l, "branch_direction", format!("branch {} ominous", bn), eb().get_ominous().get_name(), ominous(bn).to_string());
    let (m, mid, res) = hidden(bn);
    expect!(ctx, l, "hidden_stems", format!("branch {} main", bn), eb().get_hide_heaven_stem_main().get_name(), m.to_string());
    expect!(ctx, l, "hidden_stems", format!("branch {} middle", bn), eb().get_hide_heaven_stem_middle().map(|x| x.get_name()), mid.map(|x| x.to_string()));
    expect!(ctx, l, "hidden_stems", format!("branch {} residual", bn), eb().get_hide_heaven_stem_residual().map(|x| x.get_name()), res.map(|x| x.to_string()));
    let mut want_list: Vec<(String, &str)> = vec![(m.to_string(), "本气")];
    if let Some(x) = mid {
      want_list.push((x.to_string(), "中气"));
    }
    if let Some(x) = res {
      want_list.push((x.to_string(), "余气"));
    }
    expect!(
      ctx,
      l,
      "hidden_stems",
      format!("branch {} list", bn),
      eb()
        .get_hide_heaven_stems()
        .iter()
        .map(|h| (
          h.get_heaven_stem().get_name(),
          match h.get_type() {
            HideHeavenStemType::MAIN => "本气",
            HideHeavenStemType::MIDDLE => "中气",
            HideHeavenStemType::RESIDUAL => "余气",
          }
        ))
        .collect::<Vec<_>>(),
      want_list
    );
    expect!(ctx, l, "zodiac", format!("branch {} zodiac", bn), eb().get_zodiac().get_name(), ZODIAC[b].1.to_string());
    expect!(ctx, l, "branch_relations", format!("branch {} clash", bn), eb().get_opposite().get_name(), clash(bn).to_string());
    expect!(ctx, l, "branch_relations", format!("branch {} harm", bn), eb().get_harm().get_name(), harm(bn).to_string());
    expect!(ctx, l, "branch_relations", format!("branch {} harm involution", bn), eb().get_harm().get_harm().get_name(), bn.to_string());
    let (partner, el) = branch_combine(bn);
    expect!(ctx, l, "branch_relations", format!("branch {} combine", bn), eb().get_combine().get_name(), partner.to_string());
    expect!(ctx, l, "branch_relations", format!("branch {} combine involution", bn), eb().get_combine().get_combine().get_name(), bn.to_string());
    for t in 0..12usize {
      let tn = BRANCHES[t];
      expect!(ctx, l, "branch_relations", format!("branch {} combine({})", bn, tn), eb().combine(EarthBranch::from_name(tn)).map(|e| e.get_name()), if tn == partner { Some(el.to_string()) } else { None });
    }
  }
  // ---- elements and directions
  for e in ELEMENTS {
    l.states += 1;
    let el = || Element::from_name(e);
    expect!(ctx, l, "element_cycle", format!("element {} generates", e), el().get_reinforce().get_name(), generates(e).to_string());
    expect!(ctx, l, "element_cycle", format!("element {} overcomes", e), el().get_restrain().get_name(), overcomes(e).to_string());
    expect!(ctx, l, "element_cycle", format!("element {} generated by (inverse)", e), el().get_reinforced().get_reinforce().get_name(), e.to_string());
    expect!(ctx, l, "element_cycle", format!("element {} overcome by (inverse)", e), el().get_restrained().get_restrain().get_name(), e.to_string());
    expect!(ctx, l, "element_cycle", format!("element {} direction", e), el().get_direction().get_name(), element_direction(e).to_string());
  }
  let dir_el = [("北", "水"), ("西南", "土"), ("东", "木"), ("东南", "木"), ("中", "土"), ("西北", "金"), ("西", "金"), ("东北", "土"), ("南", "火")];
  for (d, e) in dir_el {
    expect!(ctx, l, "direction", format!("direction {} element", d), Direction::from_name(d).get_element().get_name(), e.to_string());
  }
  for (n, d) in LANDS {
    expect!(ctx, l, "direction", format!("land {} direction", n), Land::from_name(n).get_direction().get_name(), d.to_string());
  }
  // ---- the small enums: code <-> value <-> published name, unknown codes / names refused
  {
    use tyme4rs::tyme::enums::{FestivalType, Gender};
    expect!(ctx, l, "enums", "YinYang", (0..3).map(|c| YinYang::from_code(c).map(|v| v.get_name()).ok()).collect::<Vec<_>>(), vec![Some("阴".to_string()), Some("阳".to_string()), None]);
    expect!(ctx, l, "enums", "YinYang names", ["阴", "阳", "陰", ""].iter().map(|n| YinYang::from_name(n).map(|v| v == YinYang::from_code(if *n == "阴" { 0 } else { 1 }).unwrap()).ok()).collect::<Vec<_>>(), vec![Some(true), Some(true), None, None]);
    expect!(ctx, l, "enums", "Gender", (0..3).map(|c| Gender::from_code(c).map(|v| v.get_name()).ok()).collect::<Vec<_>>(), vec![Some("女".to_string()), Some("男".to_string()), None]);
    expect!(ctx, l, "enums", "Gender names", ["女", "男", "x"].iter().map(|n| Gender::from_name(n).map(|v| v.get_name()).ok()).collect::<Vec<_>>(), vec![Some("女".to_string()), Some("男".to_string()), None]);
    expect!(ctx, l, "enums", "Side", ["内", "外", "中"].iter().map(|n| Side::from_name(n).map(|v| v.get_name()).ok()).collect::<Vec<_>>(), vec![Some("内".to_string()), Some("外".to_string()), None]);
    expect!(ctx, l, "enums", "HideHeavenStemType", ["余气", "中气", "本气", "正气"].iter().map(|n| HideHeavenStemType::from_name(n).map(|v| v.get_name()).ok()).collect::<Vec<_>>(), vec![Some("余气".to_string()), Some("中气".to_string()), Some("本气".to_string()), None]);
    expect!(ctx, l, "enums", "FestivalType", ["日期", "节气", "除夕", "节日"].iter().map(|n| FestivalType::from_name(n).map(|v| v.get_name()).ok()).collect::<Vec<_>>(), vec![Some("日期".to_string()), Some("节气".to_string()), Some("除夕".to_string()), None]);
    // a hidden stem built from its name reports that name and stem
    for st in STEMS.iter() {
      expect!(ctx, l, "enums", format!("HideHeavenStem::from_name {}", st), {
        let h = tyme4rs::tyme::sixtycycle::HideHeavenStem::from_name(st, HideHeavenStemType::MAIN);
        (h.get_name(), h.get_heaven_stem().get_name(), h.get_type().get_name())
      }, (st.to_string(), st.to_string(), "本气".to_string()));
    }
  }
  // ---- pillars
  for i in 0..60usize {
    l.states += 1;
    let name = pillar_name(i as i64);
    let sc = || SixtyCycle::from_name(&name);
    let ny = NAYIN.iter().find(|x| x.0 == name || x.1 == name).map(|x| x.2).unwrap();
    expect!(ctx, l, "nayin", format!("pillar {} sound", name), sc().get_sound().get_name(), ny.to_string());
    let (head, void) = xun(i);
    expect!(ctx, l, "xun_void", format!("pillar {} xun", name), sc().get_ten().get_name(), head.to_string());
    expect!(ctx, l, "xun_void", format!("pillar {} void", name), sc().get_extra_earth_branches().iter().map(|b| b.get_name()).collect::<Vec<_>>(), void.iter().map(|x| x.to_string()).collect::<Vec<_>>());
    expect!(ctx, l, "pillar_parts", format!("pillar {} parts", name), (sc().get_heaven_stem().get_name(), sc().get_earth_branch().get_name()), (STEMS[i % 10].to_string(), BRANCHES[i % 12].to_string()));
    // daily foetus spirit
    let (inside, dirs) = fetus_place(i);
    l.transitions += 1;
    match guard(|| {
      let f = FetusDay::new(sc());
      (f.get_fetus_heaven_stem().get_name(), f.get_fetus_earth_branch().get_name(), f.get_side() == Side::IN, f.get_direction().get_name(), f.to_string())
    }) {
      Ok((fs, fb, side, dir, full)) => {
        // the printed name: place (门门 -> 占大门, 碓磨碓 -> 占碓磨, 房床床 -> 占房床, 门x -> 占门x) + 房内 / 外 + direction (正 before a cardinal one outside)
        let place = match format!("{}{}", fetus_stem(STEMS[i % 10]), fetus_branch(BRANCHES[i % 12])).as_str() {
          "门门" => "占大门".to_string(),
          "碓磨碓" => "占碓磨".to_string(),
          "房床床" => "占房床".to_string(),
          p if p.starts_with("门") => format!("占{}", p),
          p => p.to_string(),
        };
        let want_full = format!("{} {}{}{}", place, if side { "房内" } else { "外" }, if !side && ["北", "南", "西", "东"].contains(&dir.as_str()) { "正" } else { "" }, dir);
        if full != want_full {
          ctx.violation("fetus", format!("pillar {} foetus spirit name", name), format!("impl '{}', composed from the classical place / side / direction '{}'", full, want_full), vec!["all".into()]);
        }
        if fs != fetus_stem(STEMS[i % 10]) || fb != fetus_branch(BRANCHES[i % 12]) || side != inside || !dirs.contains(&dir.as_str()) {
          ctx.violation("fetus", format!("pillar {} foetus spirit", name), format!("impl ({}, {}, inside={}, {}), classical ({}, {}, inside={}, {:?})", fs, fb, side, dir, fetus_stem(STEMS[i % 10]), fetus_branch(BRANCHES[i % 12]), inside, dirs), vec!["all".into()]);
        }
      }
      Err(m) => ctx.violation("fetus", format!("pillar {} foetus spirit", name), format!("panics: {}", m), vec!["all".into()]),
    }
  }
  // the day-object routes to the daily foetus spirit: 60 consecutive civil days (one per pillar) must give the pillar's own spirit
  for k in 0..60usize {
    let d = SolarDay::from_ymd(2024, 1, 1).next(k as isize);
    let want = guard(|| FetusDay::new(d.get_lunar_day().get_sixty_cycle()).to_string());
    expect!(ctx, l, "fetus", format!("{} LunarDay::get_fetus_day", d), Ok::<String, String>(d.get_lunar_day().get_fetus_day().to_string()), want.clone());
    expect!(ctx, l, "fetus", format!("{} SixtyCycleDay::get_fetus_day", d), Ok::<String, String>(d.get_sixty_cycle_day().get_fetus_day().to_string()), want);
  }
  for m in 1..=12isize {
    expect!(ctx, l, "fetus", format!("lunar month {} foetus spirit via LunarMonth::get_fetus", m), LunarMonth::from_ym(2023, m).get_fetus().map(|f| f.to_string()), Some(FETUS_MONTH[m as usize - 1].to_string()));
  }
  for m in 1..=12isize {
    expect!(ctx, l, "fetus", format!("lunar month {} foetus spirit", m), FetusMonth::from_lunar_month(LunarMonth::from_ym(2023, m)).map(|f| f.get_name()), Some(FETUS_MONTH[m as usize - 1].to_string()));
  }
  expect!(ctx, l, "fetus", "leap lunar month foetus spirit", FetusMonth::from_lunar_month(LunarMonth::from_ym(2023, -2)).map(|f| f.get_name()), None::<String>);
  // ---- mansions, stars
  for (i, m) in MANSIONS.iter().enumerate() {
    l.states += 1;
    let st = || TwentyEightStar::from_name(m.0);
    expect!(ctx, l, "mansion", format!("mansion {} index", m.0), st().get_index(), i);
    expect!(ctx, l, "mansion", format!("mansion {} zone/beast", m.0), (st().get_zone().get_name(), st().get_zone().get_beast().get_name(), st().get_zone().get_direction().get_name()), (m.1.to_string(), zone_beast(m.1).to_string(), m.1.to_string()));
    expect!(ctx, l, "mansion", format!("mansion {} luminary", m.0), st().get_seven_star().get_name(), m.2.to_string());
    expect!(ctx, l, "mansion", format!("mansion {} animal", m.0), st().get_animal().get_name(), m.3.to_string());
    expect!(ctx, l, "mansion", format!("mansion {} land", m.0), st().get_land().get_name(), m.4.to_string());
    expect!(ctx, l, "mansion", format!("mansion {} luck", m.0), st().get_luck().get_name(), m.5.to_string());
  }
  for (i, n) in NINE.iter().enumerate() {
    l.states += 1;
    let st = || NineStar::from_name(n.0);
    expect!(ctx, l, "nine_star", format!("nine star {}", n.0), (st().get_index(), st().get_color(), st().get_element().get_name(), st().get_direction().get_name(), st().get_dipper().get_name()), (i, n.1.to_string(), n.2.to_string(), n.3.to_string(), n.4.to_string()));
  }
  for (n, e) in TWELVE {
    expect!(ctx, l, "twelve_star", format!("twelve star {}", n), (TwelveStar::from_name(n).get_ecliptic().get_name(), TwelveStar::from_name(n).get_ecliptic().get_luck().get_name()), (e.to_string(), if e == "黄道" { "吉".to_string() } else { "凶".to_string() }));
  }
  for (n, luck, e) in MINOR_REN {
    expect!(ctx, l, "minor_ren", format!("minor Ren {}", n), (MinorRen::from_name(n).get_luck().get_name(), MinorRen::from_name(n).get_element().get_name()), (luck.to_string(), e.to_string()));
  }
  for z in ["东", "北", "西", "南"] {
    expect!(ctx, l, "mansion", format!("zone {}", z), (Zone::from_name(z).get_beast().get_name(), Zone::from_name(z).get_direction().get_name()), (zone_beast(z).to_string(), z.to_string()));
  }
  // ---- sign boundaries: all 366 (month, day) combinations (year 2000 is a leap year)
  for m in 1..=12usize {
    for d in 1..=31usize {
      if SolarDay::new(2000, m, d).is_err() {
        continue;
      }
      l.states += 1;
      expect!(ctx, l, "constellation", format!("{:02}-{:02}", m, d), SolarDay::from_ymd(2000, m, d).get_constellation().get_name(), sign(m, d).to_string());
    }
  }
  // ---- eight-character derived signs: all 60 x 60 (month, hour) pillar pairs x 10 year stems for the palace signs
  for mi in 0..60usize {
    let mp = pillar_name(mi as i64);
    // 胎元: month stem + 1, month branch + 3
    expect!(ctx, l, "fetal_origin", format!("fetal origin of month {}", mp), EightChar::new("甲子", &mp, "甲子", "甲子").get_fetal_origin().get_name(), pillar_of(mi % 10 + 1, mi % 12 + 3));
    // 胎息: the pillar combining with the day pillar (stem 五合, branch 六合)
    expect!(ctx, l, "fetal_breath", format!("fetal breath of day {}", mp), EightChar::new("甲子", "丙寅", &mp, "甲子").get_fetal_breath().get_name(), format!("{}{}", stem_combine(STEMS[mi % 10]).0, branch_combine(BRANCHES[mi % 12]).0));
  }
  for ys in 0..10usize {
    // a year pillar with that stem
    let yp = pillar_name(ys as i64);
    for mb in 0..12usize {
      for hb in 0..12usize {
        l.states += 1;
        // any legal pillars with those branches
        let mp = pillar_name((0..60).find(|i| i % 12 == mb).unwrap() as i64);
        let hp = pillar_name((0..60).find(|i| i % 12 == hb).unwrap() as i64);
        // 命宫: months and hours both numbered from 寅 = 1 .. 丑 = 12; palace number p = 14 - (M + H) if M + H < 14 else 26 - (M + H), counted from 寅 = 1;
        // its stem follows the Five-Tigers rule of the year stem
        let num = |b: usize| (b + 12 - 2) % 12 + 1;
        let sum = num(mb) + num(hb);
        let p = if sum < 14 { 14 - sum } else { 26 - sum };
        let first = stem_idx(five_tigers(STEMS[ys]));
        let want_own = pillar_of(first + p - 1, 2 + p - 1);
        expect!(ctx, l, "own_sign", format!("own sign year {} month {} hour {}", STEMS[ys], BRANCHES[mb], BRANCHES[hb]), EightChar::new(&yp, &mp, "甲子", &hp).get_own_sign().get_name(), want_own);
        // 身宫 must at least be a legal pillar whose stem follows the Five-Tigers rule for its branch
        l.transitions += 1;
        match guard(|| EightChar::new(&yp, &mp, "甲子", &hp).get_body_sign().get_name()) {
          Ok(n) => {
            let ok = (0..12).any(|k| pillar_of(first + k, 2 + k) == n);
            if !ok {
              ctx.violation("body_sign", format!("body sign year {} month {} hour {}", STEMS[ys], BRANCHES[mb], BRANCHES[hb]), format!("{} is not a month-style pillar of a {} year (Five Tigers)", n, STEMS[ys]), vec!["all".into()]);
            }
          }
          Err(m) => ctx.violation("body_sign", format!("body sign year {} month {} hour {}", STEMS[ys], BRANCHES[mb], BRANCHES[hb]), format!("panics: {}", m), vec!["all".into()]),
        }
      }
    }
  }
  l.traces += 1;
  ctx.add(&l);
  ctx.subspace("10 stems, 12 branches, 10x10 and 10x12 pairs, 5 elements, 9 directions/lands, 60 pillars, 28 mansions, 9+12+6 stars, 366 (month, day), 13 lunar months, 60 fetal pillars, 10x12x12 palace signs: every attribute compared with the classical encoding", true, l.states);
  ctx.sample(format!("乙 -> 甲 ten star: impl {:?}, rule {}", guard(|| HeavenStem::from_name("乙").get_ten_star(HeavenStem::from_name("甲")).get_name()), ten_star("乙", "甲")));
  ctx.sample(format!("甲 terrain at 亥: impl {:?}, rule 长生", guard(|| HeavenStem::from_name("甲").get_terrain(EarthBranch::from_name("亥")).get_name())));
}

pub fn replay(ctx: &Ctx, _args: &[String]) {
  println!("replay C19: the space is tiny; re-running the complete enumeration");
  run(ctx);
}
