//! C13 Containers list exactly their parts: year, half, season, month, day, hour.
//! State = container; transition = list accessor; oracle = odometer / lunation table / term table.

use crate::engine::*;
use crate::props::c01::{mk, ymd_of};
use crate::props::c08::ym_of_g;
use crate::props::c12::{fmt_inst, inst_of};
use crate::refmodel::civil::*;
use crate::refmodel::lunar::*;
use crate::refmodel::pillar::*;
use crate::refmodel::terms::*;
use tyme4rs::tyme::Tyme as _;
use tyme4rs::tyme::lunar::{LunarDay, LunarMonth, LunarYear};
use tyme4rs::tyme::sixtycycle::SixtyCycleMonth;
use tyme4rs::tyme::solar::{SolarMonth, SolarYear};
use tyme4rs::tyme::Culture;

fn check_solar_year(ctx: &Ctx, civ: &Civil, y: i32, loc: &mut Local) {
  loc.states += 1;
  let key = format!("{:04}", y);
  let rp = vec!["syear".to_string(), y.to_string()];
  loc.transitions += 4;
  let r = guard(|| {
    let sy = SolarYear::from_year(y as isize);
    let halves: Vec<(isize, usize)> = sy.get_half_years().iter().map(|h| (h.get_year(), h.get_index())).collect();
    let seasons: Vec<(isize, usize)> = sy.get_seasons().iter().map(|s| (s.get_year(), s.get_index())).collect();
    let months: Vec<(isize, usize)> = sy.get_months().iter().map(|m| (m.get_year(), m.get_month())).collect();
    let mut nest = Vec::new();
    for h in sy.get_half_years() {
      nest.push((h.get_seasons().iter().map(|s| (s.get_year(), s.get_index())).collect::<Vec<_>>(), h.get_months().iter().map(|m| (m.get_year(), m.get_month())).collect::<Vec<_>>()));
    }
    for h in sy.get_half_years() {
      if h.get_solar_year().get_year() != sy.get_year() {
        panic!("half-year {} get_solar_year() = {}", h.get_index(), h.get_solar_year().get_year());
      }
    }
    for s in sy.get_seasons() {
      if s.get_solar_year().get_year() != sy.get_year() {
        panic!("season {} get_solar_year() = {}", s.get_index(), s.get_solar_year().get_year());
      }
    }
    let mut snest = Vec::new();
    for s in sy.get_seasons() {
      snest.push(s.get_months().iter().map(|m| (m.get_year(), m.get_month(), m.get_season().get_index())).collect::<Vec<_>>());
    }
    (halves, seasons, months, nest, snest)
  });
  let yy = y as isize;
  match r {
    Ok((halves, seasons, months, nest, snest)) => {
      if halves != vec![(yy, 0), (yy, 1)] || seasons != (0..4).map(|i| (yy, i)).collect::<Vec<_>>() || months != (1..=12).map(|m| (yy, m)).collect::<Vec<_>>() {
        ctx.violation("solar_year_lists", key.clone(), format!("half-years {:?} seasons {:?} months {:?}", halves, seasons, months), rp.clone());
      }
      for (h, (ss, ms)) in nest.iter().enumerate() {
        if *ss != vec![(yy, 2 * h), (yy, 2 * h + 1)] || *ms != (1..=6).map(|m| (yy, 6 * h + m)).collect::<Vec<_>>() {
          ctx.violation("solar_year_lists", key.clone(), format!("half-year {} lists seasons {:?} months {:?}", h, ss, ms), rp.clone());
        }
      }
      for (s, ms) in snest.iter().enumerate() {
        if *ms != (1..=3).map(|m| (yy, 3 * s + m, s)).collect::<Vec<_>>() {
          ctx.violation("solar_year_lists", key.clone(), format!("season {} lists (year, month, month.get_season) {:?}", s, ms), rp.clone());
        }
      }
    }
    Err(m) => ctx.violation("solar_year_lists", key.clone(), format!("panics: {}", m), rp.clone()),
  }
  // month -> days; the position of each listed date in the year = its day-of-year; the lists sum to the year's day count
  let mut pos: usize = 0;
  for m in 1..=12u8 {
    loc.transitions += 1;
    let want: Vec<Ymd> = {
      let o = civ.ord(y, m, 1).unwrap();
      (0..civ.days_in_month(y, m) as usize).map(|k| civ.date(o + k)).collect()
    };
    let r = guard(|| {
      let sm = SolarMonth::from_ym(yy, m as usize);
      let days = sm.get_days();
      let back_ok = days.iter().all(|d| {
        let b = d.get_solar_month();
        b.get_year() == yy && b.get_month() == m as usize
      }) && sm.get_solar_year().get_year() == yy;
      if !back_ok {
        panic!("a listed day's get_solar_month() (or the month's get_solar_year()) does not point back to {}-{}", yy, m);
      }
      (days.iter().map(|d| ymd_of(d)).collect::<Vec<_>>(), sm.get_day_count(), days.iter().map(|d| d.get_index_in_year()).collect::<Vec<_>>())
    });
    let mkey = format!("{:04}-{:02}", y, m);
    let mrp = vec!["smonth".to_string(), y.to_string(), m.to_string()];
    match r {
      Ok((days, count, doy)) => {
        let want_doy: Vec<usize> = (pos..pos + days.len()).collect();
        if doy != want_doy {
          let k = doy.iter().zip(want_doy.iter()).position(|(a, b)| a != b).unwrap_or(0);
          ctx.violation("day_of_year", format!("{:04}-{:02}", y, m), format!("listed date #{} of the month ({}) reports day-of-year {}, its position in the year's lists is {}", k, days.get(k).map(|d| fmt_ymd(*d)).unwrap_or_default(), doy.get(k).cloned().unwrap_or(0), want_doy.get(k).cloned().unwrap_or(0)), mrp.clone());
        }
        pos += days.len();
        if days != want || count != want.len() {
          ctx.violation("solar_month_days", mkey, format!("get_days() lists {} days (first {:?}, last {:?}), get_day_count()={}; the month has {} days {}..{}", days.len(), days.first().map(|d| fmt_ymd(*d)), days.last().map(|d| fmt_ymd(*d)), count, want.len(), fmt_ymd(want[0]), fmt_ymd(*want.last().unwrap())), mrp);
        }
      }
      Err(e) => ctx.violation("solar_month_days", mkey, format!("get_days() panics: {}; the month has {} days", e, want.len()), mrp),
    }
  }
  loc.transitions += 1;
  match guard(|| SolarYear::from_year(yy).get_day_count()) {
    Ok(c) if c == pos => {}
    Ok(c) => ctx.violation("day_of_year", key.clone(), format!("SolarYear::get_day_count()={} but the 12 month lists hold {} dates", c, pos), rp.clone()),
    Err(e) => ctx.violation("day_of_year", key.clone(), format!("panics: {}", e), rp.clone()),
  }
  loc.traces += 1;
}

fn check_lunar_year(ctx: &Ctx, civ: &Civil, t: &LunTable, y: isize, loc: &mut Local) {
  loc.states += 1;
  let sl = t.year_slice(y);
  let key = format!("{:04}", y);
  let r = guard(|| LunarYear::from_year(y).get_months().iter().map(|m| (m.get_year() as i32, m.get_month_with_leap() as i8)).collect::<Vec<_>>());
  loc.transitions += 1;
  match r {
    Ok(ms) => {
      if ms != sl.iter().map(|l| (l.y, l.m)).collect::<Vec<_>>() {
        ctx.violation("lunar_year_months", key.clone(), format!("get_months() = {:?}", ms), vec!["lyear".into(), y.to_string()]);
      }
    }
    Err(m) => ctx.violation("lunar_year_months", key.clone(), format!("panics: {}", m), vec!["lyear".into(), y.to_string()]),
  }
  for l in sl {
    if !l.ok {
      continue;
    }
    loc.transitions += 1;
    let o0 = l.jd - JDN0;
    if o0 < 0 || (o0 as usize + l.days as usize) > civ.len() {
      continue;
    }
    // the listed days really are the days the calendar assigns to this month: first, middle and last day convert back
    if !((7..=26).contains(&l.y) || (235..=241).contains(&l.y)) {
      if l.days != 29 && l.days != 30 {
        ctx.violation("lunar_month_days", l.key(), format!("the month lists {} days (a lunar month has 29 or 30)", l.days), vec!["lmonth".to_string(), l.y.to_string(), l.m.to_string()]);
      }
      loc.transitions += 1;
      let r = guard(|| {
        let ds = LunarMonth::from_ym(l.y as isize, l.m as isize).get_days();
        [0usize, 14, ds.len() - 1].iter().map(|&k| {
          let back = ds[k].get_solar_day().get_lunar_day();
          (back.get_year() as i32, back.get_month() as i8, back.get_day())
        }).collect::<Vec<_>>()
      });
      match r {
        Ok(b) => {
          let want = vec![(l.y, l.m, 1usize), (l.y, l.m, 15), (l.y, l.m, l.days as usize)];
          if b != want {
            ctx.violation("lunar_month_days", l.key(), format!("listed days 1, 15 and {} convert to civil dates whose lunar date is {:?}", l.days, b), vec!["lmonth".to_string(), l.y.to_string(), l.m.to_string()]);
          }
        }
        Err(m) => ctx.violation("lunar_month_days", l.key(), format!("panics: {}", m), vec!["lmonth".to_string(), l.y.to_string(), l.m.to_string()]),
      }
    }
    let r = guard(|| {
      let lm = LunarMonth::from_ym(l.y as isize, l.m as isize);
      if lm.get_lunar_year().get_year() != l.y as isize {
        panic!("get_lunar_year() = {}", lm.get_lunar_year().get_year());
      }
      let ds = lm.get_days();
      for d in ds.iter() {
        let b = d.get_lunar_month();
        if b.get_year() != l.y as isize || b.get_month_with_leap() != l.m as isize || b.get_day_count() != l.days as usize {
          panic!("listed day {} points back to lunar month {}-{} of {} days", d.get_day(), b.get_year(), b.get_month_with_leap(), b.get_day_count());
        }
      }
      ds.iter().map(|d| (d.get_year() as i32, d.get_month() as i8, d.get_day(), ymd_of(&d.get_solar_day()))).collect::<Vec<_>>()
    });
    let rp = vec!["lmonth".to_string(), l.y.to_string(), l.m.to_string()];
    match r {
      Ok(ds) => {
        let want: Vec<(i32, i8, usize, Ymd)> = (0..l.days as usize).map(|k| (l.y, l.m, k + 1, civ.date(o0 as usize + k))).collect();
        if ds != want {
          ctx.violation("lunar_month_days", l.key(), format!("get_days() lists {} days, first {:?} last {:?}; model: days 1..={} on consecutive civil days from {}", ds.len(), ds.first(), ds.last(), l.days, fmt_ymd(civ.date(o0 as usize))), rp.clone());
        }
      }
      Err(m) => ctx.violation("lunar_month_days", l.key(), format!("panics: {}", m), rp.clone()),
    }
    // history + chain: a listed day whose civil date has already been resolved, stepped inside the month, must list
    // the parts of the day it now denotes (civil date, the 13 slots starting on that date)
    if !((7..=26).contains(&l.y) || (235..=241).contains(&l.y)) && l.days >= 29 {
      loc.transitions += 1;
      let last = l.days as usize - 1;
      let r = guard(|| {
        let ds = LunarMonth::from_ym(l.y as isize, l.m as isize).get_days();
        let mut out = Vec::new();
        for (k, n) in [(0usize, 1isize), (0, 14), (last, -1), (14, -14)] {
          let _ = ds[k].get_solar_day();
          let _ = ds[k].get_sixty_cycle_day();
          let s = ds[k].next(n);
          let hs = s.get_hours();
          out.push((k, n, s.get_day(), ymd_of(&s.get_solar_day()), hs.len(), ymd_of(&hs[0].get_solar_time().get_solar_day()), ymd_of(&s.get_sixty_cycle_day().get_solar_day())));
        }
        out
      });
      match r {
        Ok(out) => {
          let mut bad = Vec::new();
          for (k, n, day, sd, nh, h0, sc) in out {
            let want = civ.date((o0 + k as i64 + n as i64) as usize);
            if day != (k as isize + n + 1) as usize || sd != want || nh != 13 || h0 != want || sc != want {
              bad.push(format!("listed day {} (resolved) .next({}): day number {}, civil date {}, {} slots the first on {}, sexagenary day on {}; model: day {} on {}", k + 1, n, day, fmt_ymd(sd), nh, fmt_ymd(h0), fmt_ymd(sc), k as isize + n + 1, fmt_ymd(want)));
            }
          }
          if bad.is_empty() {
            loc.oc("stepped_listed_lunar_day_ok");
          } else {
            ctx.violation("lunar_month_days", format!("{} stepped", l.key()), bad.join("; "), rp);
          }
        }
        Err(m) => ctx.violation("lunar_month_days", format!("{} stepped", l.key()), format!("panics: {}", m), rp),
      }
    }
  }
}

fn check_hours(ctx: &Ctx, civ: &Civil, ord: usize, loc: &mut Local) {
  let d = civ.date(ord);
  loc.states += 1;
  loc.transitions += 2;
  let rp = vec!["hours".to_string(), ord.to_string()];
  // lunar day: 13 slots 00:00, 01:00, 03:00, ..., 23:00 of that civil day
  let r = guard(|| {
    let ld = mk(d).get_lunar_day();
    let hs = ld.get_hours();
    for h in hs.iter() {
      let fresh = h.get_solar_time().get_lunar_hour();
      if h.get_eight_char().get_name() != fresh.get_eight_char().get_name() || h.get_sixty_cycle().get_name() != fresh.get_sixty_cycle().get_name() {
        panic!("lunar hour slot {}: [{}], built afresh at {}: [{}]", h.get_index_in_day(), h.get_eight_char().get_name(), h.get_solar_time(), fresh.get_eight_char().get_name());
      }
    }
    hs.iter().map(|h| (inst_of(civ, &h.get_solar_time()), h.get_index_in_day(), h.get_lunar_day() == ld)).collect::<Vec<_>>()
  });
  match r {
    Ok(hs) => {
      let mut want: Vec<(Option<i64>, usize, bool)> = vec![(Some(ord as i64 * 86400), 0, true)];
      for k in 0..12i64 {
        want.push((Some(ord as i64 * 86400 + (2 * k + 1) * 3600), (k + 1) as usize, true));
      }
      if hs != want {
        ctx.violation("lunar_day_hours", fmt_ymd(d), format!("LunarDay::get_hours() = {:?}", hs.iter().map(|h| (h.0.map(|i| fmt_inst(civ, i)), h.1)).collect::<Vec<_>>()), rp.clone());
      }
    }
    Err(m) => ctx.violation("lunar_day_hours", fmt_ymd(d), format!("panics: {}", m), rp.clone()),
  }
  // sexagenary day: 12 slots from 23:00 of the previous day, 2 h apart, all carrying this day's pillar
  if ord == 0 {
    return;
  }
  let r = guard(|| {
    let sd = mk(d).get_sixty_cycle_day();
    let hs = sd.get_hours();
    for h in hs.iter() {
      // a listed slot is the same value as the one built afresh at its instant (all four pillars, eight characters)
      let fresh = h.get_solar_time().get_sixty_cycle_hour();
      if h.to_string() != fresh.to_string() || h.get_eight_char().get_name() != fresh.get_eight_char().get_name() {
        panic!("hour slot {} = {} [{}], built afresh at {}: {} [{}]", h.get_index_in_day(), h, h.get_eight_char().get_name(), h.get_solar_time(), fresh, fresh.get_eight_char().get_name());
      }
      let back = h.get_sixty_cycle_day();
      // only the day pillar: the slot's day object carries the year / month pillars of the *instant* (C08), which differ
      // from the day-level ones on a Jie day before the Jie instant
      if back.get_sixty_cycle().get_name() != sd.get_sixty_cycle().get_name() {
        panic!("hour slot {} points back to sexagenary day {} (listing day: {})", h.get_index_in_day(), back, sd);
      }
    }
    hs.iter().map(|h| (inst_of(civ, &h.get_solar_time()), h.get_index_in_day(), h.get_day().get_name(), h.get_sixty_cycle().get_name())).collect::<Vec<_>>()
  });
  match r {
    Ok(hs) => {
      let dp = day_pillar(civ.jdn(ord));
      let want: Vec<(Option<i64>, usize, String, String)> = (0..12i64).map(|k| (Some(ord as i64 * 86400 - 3600 + k * 7200), k as usize, pillar_name(dp), hour_pillar((dp % 10) as usize, ((2 * k + 23) % 24) as usize))).collect();
      if hs != want {
        ctx.violation("sixty_day_hours", fmt_ymd(d), format!("SixtyCycleDay::get_hours() = {:?}; model = {:?}", hs.iter().map(|h| (h.0.map(|i| fmt_inst(civ, i)), h.1, h.2.clone(), h.3.clone())).collect::<Vec<_>>(), want.iter().map(|h| (h.0.map(|i| fmt_inst(civ, i)), h.1, h.2.clone(), h.3.clone())).collect::<Vec<_>>()), rp);
      }
    }
    Err(m) => ctx.violation("sixty_day_hours", fmt_ymd(d), format!("panics: {}", m), rp),
  }
}

/// sexagenary month k of Lichun-year y lists exactly the days from its Jie day to the day before the next Jie
fn check_sixty_month(ctx: &Ctx, civ: &Civil, tm: &Terms, y: isize, k: usize, loc: &mut Local) {
  let gj = (24 * y + 3 + 2 * k as isize) as usize;
  let a = tm.t[gj].day;
  let b = tm.t[gj + 2].day;
  if a == u32::MAX || b == u32::MAX {
    return;
  }
  debug_assert_eq!(ym_of_g(gj).1, k);
  loc.states += 1;
  loc.transitions += 1;
  let r = guard(|| {
    let ds = SixtyCycleMonth::from_index(y, k as isize).get_days();
    if !ds.is_empty() {
      for &i in &[0usize, ds.len() / 2, ds.len() - 1] {
        let b = ds[i].get_sixty_cycle_month();
        if b.get_index_in_year() != k || b.get_sixty_cycle_year().get_year() != y {
          panic!("listed day #{} points back to month {} of year {}", i, b.get_index_in_year(), b.get_sixty_cycle_year().get_year());
        }
      }
    }
    ds.iter().map(|d| ymd_of(&d.get_solar_day())).collect::<Vec<_>>()
  });
  let key = format!("{:04}/{:02}", y, k);
  let rp = vec!["smonth60".to_string(), y.to_string(), k.to_string()];
  match r {
    Ok(ds) => {
      let want: Vec<Ymd> = (a as usize..b as usize).map(|o| civ.date(o)).collect();
      if ds != want {
        ctx.violation("sixty_month_days", key.clone(), format!("get_days() lists {} days {:?}..{:?}; model {} days {}..{} (Jie day to the day before the next Jie)", ds.len(), ds.first().map(|d| fmt_ymd(*d)), ds.last().map(|d| fmt_ymd(*d)), want.len(), fmt_ymd(want[0]), fmt_ymd(*want.last().unwrap())), rp.clone());
      }
    }
    Err(m) => ctx.violation("sixty_month_days", key.clone(), format!("panics: {}", m), rp.clone()),
  }
  // the same container reached by navigation: the month stepped to from (y, k) by +1 / -1 / +12 lists the model's days
  for n in [1isize, -1, 12] {
    let g2 = gj as isize + 2 * n;
    if g2 < 3 || (g2 + 2) as usize >= tm.t.len() {
      continue;
    }
    let (a2, b2) = (tm.t[g2 as usize].day, tm.t[g2 as usize + 2].day);
    if a2 == u32::MAX || b2 == u32::MAX {
      continue;
    }
    loc.transitions += 1;
    let r = guard(|| {
      let ds = SixtyCycleMonth::from_index(y, k as isize).next(n).get_days();
      (ds.len(), ds.first().map(|d| ymd_of(&d.get_solar_day())), ds.last().map(|d| ymd_of(&d.get_solar_day())))
    });
    let want = ((b2 - a2) as usize, Some(civ.date(a2 as usize)), Some(civ.date(b2 as usize - 1)));
    match r {
      Ok(g) if g == want => loc.oc("stepped_sixty_month_days_ok"),
      Ok(g) => ctx.violation("sixty_month_days", format!("{} next({})", key, n), format!("from_index({}, {}).next({}).get_days(): (count, first, last) = {:?}; model {:?}", y, k, n, g, want), rp.clone()),
      Err(m) => ctx.violation("sixty_month_days", format!("{} next({})", key, n), format!("panics: {}", m), rp.clone()),
    }
  }
}

pub fn run(ctx: &Ctx) {
  let civ = Civil::build();
  ctx.assume("civil parts from the odometer; lunar parts from the lunation table in model order; sexagenary month boundaries from the library's own Jie days");
  let done = par_chunks(ctx, 1, 10000, 20, |a, b, l| {
    for y in a..b {
      check_solar_year(ctx, &civ, y as i32, l);
    }
  });
  ctx.subspace("civil years 1..9999: 2 half-years, 4 seasons, 12 months, nesting; all 119,988 months list exactly their existing dates", done, 9999);
  let t = LunTable::build(ctx, 0, 9999);
  let done = par_chunks(ctx, 0, 10000, 20, |a, b, l| {
    for y in a..b {
      check_lunar_year(ctx, &civ, &t, y as isize, l);
    }
  });
  ctx.subspace("lunar years 0..9999: month list; every lunation lists days 1..=len on consecutive civil days", done, t.l.len() as u64);
  // hour lists on W' = 3 x 400 days
  let mut hdays: Vec<usize> = Vec::new();
  for start in [(1582, 1, 1), (2020, 1, 1), (9990, 1, 1), (2, 1, 1)] {
    let o = civ.ord(start.0, start.1, start.2).unwrap();
    hdays.extend(o..(o + 400).min(civ.len()));
  }
  // the first weeks of the range (sexagenary year 0: from the day after the Xiaohan day of year 1) and its last days
  let first = civ.ord(1, 1, 7).unwrap();
  hdays.extend(first..first + 45);
  hdays.extend(civ.len() - 30..civ.len());
  hdays.sort();
  hdays.dedup();
  let done = par_chunks(ctx, 0, hdays.len(), 16, |a, b, l| {
    for i in a..b {
      check_hours(ctx, &civ, hdays[i], l);
    }
  });
  ctx.subspace("hour lists of 4 x 400 consecutive days (from 0002-01-01, 1582-01-01, 2020-01-01, 9990-01-01), of 0001-01-07..02-20 and of the last 30 days of 9999: LunarDay 13 slots, SixtyCycleDay 12 slots", done, hdays.len() as u64);
  let tm = Terms::build(ctx, &civ);
  let mut years = years_for(ctx, 1, 9997);
  if ctx.quick() {
    // plus every 7th year of the whole range
    years.extend((1..=9997isize).filter(|y| y % 7 == 0));
    years.sort();
    years.dedup();
  }
  let done = par_chunks(ctx, 0, years.len(), 4, |a, b, l| {
    for i in a..b {
      for k in 0..12 {
        check_sixty_month(ctx, &civ, &tm, years[i], k, l);
      }
    }
  });
  // the Chou month of sexagenary year 0 (0001-01-06..0001-02-04), the first month of the range
  if ctx.primary() {
    let mut l = Local::default();
    check_sixty_month(ctx, &civ, &tm, 0, 11, &mut l);
    ctx.add(&l);
  }
  ctx.subspace(&format!("sexagenary months of {} Lichun-years x 12 (and the last month of year 0): days from the Jie day to the day before the next Jie", years.len()), done, years.len() as u64 * 12);
  if ctx.primary() {
    let r = guard(|| SolarMonth::from_ym(1582, 10).get_days().iter().map(|d| d.get_day()).collect::<Vec<_>>());
    ctx.sample(format!("SolarMonth(1582,10).get_days() day numbers = {:?}; model 1..4, 15..31", r));
    let r = guard(|| LunarYear::from_year(2020).get_months().iter().map(|m| m.get_month_with_leap()).collect::<Vec<_>>());
    ctx.sample(format!("LunarYear(2020).get_months() = {:?}", r));
  }
}

pub fn replay(ctx: &Ctx, args: &[String]) {
  let civ = Civil::build();
  let n: Vec<i64> = args[1..].iter().filter_map(|a| a.parse().ok()).collect();
  let mut l = Local::default();
  match args[0].as_str() {
    "syear" | "smonth" => check_solar_year(ctx, &civ, n[0] as i32, &mut l),
    "lyear" | "lmonth" => {
      let t = LunTable::build(ctx, (n[0] as isize - 1).max(0), (n[0] as isize + 1).min(9999));
      check_lunar_year(ctx, &civ, &t, n[0] as isize, &mut l);
    }
    "hours" => check_hours(ctx, &civ, n[0] as usize, &mut l),
    _ => {
      let y = n[0] as usize;
      let tm = Terms::build_range(ctx, &civ, y.saturating_sub(1), (y + 2).min(10000));
      check_sixty_month(ctx, &civ, &tm, n[0] as isize, n[1] as usize, &mut l);
    }
  }
  ctx.add(&l);
}
