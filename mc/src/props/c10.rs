//! C10 (sequential part): answers do not depend on call history or earlier refusals.
//! Explicit-state search over the real process-wide memo: state = canonical memo contents (+ poison flags),
//! transition = one request from the alphabet; oracle = the cold answer (same request on a reset process
//! state) and, for lunar months, the cache-free constructor. The schedule part (loom) lives in /verif/mc-loom.

use crate::engine::*;
use std::collections::{HashMap, VecDeque};
use tyme4rs::tyme::eightchar::ChildLimit;
use tyme4rs::tyme::enums::Gender;
use tyme4rs::tyme::lunar::{self, LunarDay, LunarHour, LunarMonth, LunarYear};
use tyme4rs::tyme::solar::{SolarDay, SolarTime};
use tyme4rs::tyme::{Culture, Tyme};

#[derive(Clone)]
struct Req {
  name: String,
  /// true when the cold answer is a refusal
  kind: Kind,
}

#[derive(Clone, Copy, PartialEq)]
enum Kind {
  Month(isize, isize),
  LunarOfSolar(isize, usize, usize),
  SolarOfLunar(isize, isize, usize),
  YearMonths(isize),
  SixtyDay(isize, usize, usize),
  EightChar(isize, usize, usize, usize),
  ChildLimit(isize, usize, usize, usize, usize, usize, bool),
  LunarDayNew(isize, isize, usize),
  SolarDayNew(isize, usize, usize),
  MonthNext(isize, isize, isize),
  Festival(isize, isize, usize),
}

fn fmt_month(m: &LunarMonth) -> String {
  format!("lunar month y={} m={} days={} idx={} firstJD={}", m.get_year(), m.get_month_with_leap(), m.get_day_count(), m.get_index_in_year(), m.get_first_julian_day().get_day())
}

fn exec(k: Kind) -> String {
  match k {
    Kind::Month(y, m) => fmt_month(&LunarMonth::from_ym(y, m)),
    Kind::LunarOfSolar(y, m, d) => {
      let l = SolarDay::from_ymd(y, m, d).get_lunar_day();
      format!("{} y={} m={} d={} -> back {}", l, l.get_year(), l.get_month(), l.get_day(), l.get_solar_day())
    }
    Kind::SolarOfLunar(y, m, d) => {
      let l = LunarDay::from_ymd(y, m, d);
      format!("{} pillar {}", l.get_solar_day(), l.get_sixty_cycle())
    }
    Kind::YearMonths(y) => LunarYear::from_year(y).get_months().iter().map(|m| fmt_month(m)).collect::<Vec<_>>().join("; "),
    Kind::SixtyDay(y, m, d) => {
      let s = SolarDay::from_ymd(y, m, d).get_sixty_cycle_day();
      format!("{} {} {}", s.get_year(), s.get_month(), s.get_sixty_cycle())
    }
    Kind::EightChar(y, m, d, h) => SolarTime::from_ymd_hms(y, m, d, h, 30, 0).get_lunar_hour().get_eight_char().get_name(),
    Kind::ChildLimit(y, m, d, h, mi, s, man) => {
      let c = ChildLimit::from_solar_time(SolarTime::from_ymd_hms(y, m, d, h, mi, s), if man { Gender::MAN } else { Gender::WOMAN });
      format!("{} -> {} ({}y{}m{}d{}h{}min)", c.get_start_time(), c.get_end_time(), c.get_year_count(), c.get_month_count(), c.get_day_count(), c.get_hour_count(), c.get_minute_count())
    }
    Kind::LunarDayNew(y, m, d) => match LunarDay::new(y, m, d) {
      Ok(l) => format!("{}", l),
      Err(e) => panic!("{}", e),
    },
    Kind::SolarDayNew(y, m, d) => match SolarDay::new(y, m, d) {
      Ok(l) => format!("{}", l),
      Err(e) => panic!("{}", e),
    },
    Kind::MonthNext(y, m, n) => fmt_month(&LunarMonth::from_ym(y, m).next(n)),
    Kind::Festival(y, m, d) => match LunarDay::from_ymd(y, m, d).get_festival() {
      Some(f) => format!("{}", f),
      None => "none".into(),
    },
  }
}

/// the observable answer of a request: the value, or the fact that it was refused
fn answer(k: Kind) -> String {
  match guard(|| exec(k)) {
    Ok(s) => s,
    Err(m) => {
      if m.contains("PoisonError") {
        "REFUSED(poisoned lock)".into()
      } else {
        "REFUSED".into()
      }
    }
  }
}

fn req(name: &str, kind: Kind) -> Req {
  Req { name: name.to_string(), kind }
}

/// Core alphabet: month requests whose keys collide under every plausible keying (plain concatenation,
/// |month|, truncated or swapped fields) plus refused requests.
fn core_alphabet(quick: bool) -> Vec<Req> {
  let mut v = Vec::new();
  let mut months: Vec<(isize, isize)> = vec![(1, 12), (11, 2), (1, 11), (11, 1), (202, 12), (2021, 2), (2020, 4), (2020, -4)];
  if !quick {
    months.extend([(0, 1), (9999, 12), (12, 1), (1, 1)]);
  }
  for (y, m) in months {
    v.push(req(&format!("from_ym({},{})", y, m), Kind::Month(y, m)));
  }
  // refused requests
  for (y, m) in [(2021, 13), (2021, 0), (2020, -5), (2021, -2), (10000, 1)] {
    v.push(req(&format!("from_ym({},{}) [refused]", y, m), Kind::Month(y, m)));
  }
  v.push(req("LunarDay::new(2021,1,31) [refused]", Kind::LunarDayNew(2021, 1, 31)));
  v.push(req("LunarDay::new(2020,-4,0) [refused]", Kind::LunarDayNew(2020, -4, 0)));
  v.push(req("SolarDay::new(2021,2,30) [refused]", Kind::SolarDayNew(2021, 2, 30)));
  v.push(req("SolarDay::new(1582,10,10) [refused]", Kind::SolarDayNew(1582, 10, 10)));
  v
}

/// Derived queries that reach the memo through walks, and the provider locks
fn derived_alphabet() -> Vec<Req> {
  vec![
    req("SolarDay(2021,2,20).get_lunar_day", Kind::LunarOfSolar(2021, 2, 20)),
    req("SolarDay(202,12,25).get_lunar_day", Kind::LunarOfSolar(202, 12, 25)),
    req("LunarDay(202,12,1).get_solar_day", Kind::SolarOfLunar(202, 12, 1)),
    req("LunarDay(2020,-4,1).get_solar_day", Kind::SolarOfLunar(2020, -4, 1)),
    req("LunarYear(11).get_months", Kind::YearMonths(11)),
    req("LunarYear(1).get_months", Kind::YearMonths(1)),
    req("SolarDay(11,3,1).get_sixty_cycle_day", Kind::SixtyDay(11, 3, 1)),
    req("SolarTime(2021,2,3 23:30).eight_char", Kind::EightChar(2021, 2, 3, 23)),
    req("ChildLimit(1989-12-31 23:07:17, man)", Kind::ChildLimit(1989, 12, 31, 23, 7, 17, true)),
    req("ChildLimit(9998-12-30 01:00:00, woman) [ends past 9999?]", Kind::ChildLimit(9998, 12, 30, 1, 0, 0, false)),
    req("ChildLimit(1574-10-23 01:11:19, woman) [end near the 1582 gap]", Kind::ChildLimit(1574, 10, 23, 1, 11, 19, false)),
    req("from_ym(1,12).next(1)", Kind::MonthNext(1, 12, 1)),
    req("from_ym(2020,4).next(1)", Kind::MonthNext(2020, 4, 1)),
    req("from_ym(2020,-4).next(-1)", Kind::MonthNext(2020, -4, -1)),
    req("LunarDay(2021,12,29).get_festival", Kind::Festival(2021, 12, 29)),
  ]
}

type State = String;

fn snapshot() -> State {
  let snap = lunar::verif_cache_snapshot();
  let mut s = String::new();
  for (k, v) in snap {
    s.push_str(&k);
    s.push('=');
    s.push_str(&v.iter().map(|x| x.to_string()).collect::<Vec<_>>().join(","));
    s.push(';');
  }
  let p = lunar::verif_poisoned();
  let q = tyme4rs::tyme::eightchar::verif_poisoned();
  s.push_str(&format!("|poison={}{}{}", p[0] as u8, p[1] as u8, q as u8));
  s
}

fn reset() {
  clear_poison();
}

fn replay_history(alpha: &[Req], hist: &[usize]) {
  reset();
  for &i in hist {
    let _ = answer(alpha[i].kind);
  }
}

fn hist_str(alpha: &[Req], hist: &[usize]) -> String {
  hist.iter().map(|&i| alpha[i].name.clone()).collect::<Vec<_>>().join(" ; ")
}

/// BFS over memo states up to `max_depth` (None = fixpoint). Returns (states, transitions, max depth reached, complete)
fn explore(ctx: &Ctx, label: &str, alpha: &[Req], max_depth: Option<usize>, alpha_tag: &str) -> (u64, u64, usize, bool) {
  // cold answers
  let mut cold: Vec<String> = Vec::new();
  for r in alpha {
    reset();
    cold.push(answer(r.kind));
  }
  // cache-free oracle for month requests
  for (i, r) in alpha.iter().enumerate() {
    if let Kind::Month(y, m) = r.kind {
      let free = match guard(|| LunarMonth::new(y, m)) {
        Ok(Ok(mm)) => fmt_month(&mm),
        _ => "REFUSED".into(),
      };
      if free != cold[i] {
        ctx.violation("cold_vs_cachefree", r.name.clone(), format!("cold answer '{}' but cache-free constructor gives '{}'", cold[i], free), vec!["hist".into(), alpha_tag.into(), i.to_string()]);
      }
    }
  }
  reset();
  let s0 = snapshot();
  let mut seen: HashMap<State, Vec<usize>> = HashMap::new();
  seen.insert(s0.clone(), vec![]);
  let mut frontier: VecDeque<(State, Vec<usize>)> = VecDeque::new();
  frontier.push_back((s0, vec![]));
  let mut states: u64 = 1;
  let mut transitions: u64 = 0;
  let mut depth_reached = 0usize;
  let mut complete = true;
  let mut outcomes: HashMap<String, u64> = HashMap::new();
  let mut hits: u64 = 0;
  while let Some((st, hist)) = frontier.pop_front() {
    if ctx.expired() {
      complete = false;
      break;
    }
    if let Some(md) = max_depth {
      if hist.len() >= md {
        continue;
      }
    }
    let mut dirty = true;
    for (i, r) in alpha.iter().enumerate() {
      // rebuild the state only when the previous request changed it
      if dirty {
        replay_history(alpha, &hist);
      }
      let before = if dirty { snapshot() } else { st.clone() };
      if before != st {
        // replaying the shortest history must rebuild the state: the search owns all nondeterminism
        ctx.violation("replay_divergence", hist_str(alpha, &hist), format!("replaying the history produced a different memo state ({} vs {})", before.len(), st.len()), vec![]);
      }
      let got = answer(r.kind);
      transitions += 1;
      let after = snapshot();
      dirty = after != before;
      if !dirty {
        hits += 1;
      }
      *outcomes.entry(got.split(' ').next().unwrap_or("").to_string()).or_insert(0) += 1;
      if got != cold[i] {
        let mut h2 = hist.clone();
        h2.push(i);
        ctx.violation(
          "history",
          hist_str(alpha, &h2),
          format!("after history [{}] the request {} answers '{}' but in a fresh process state it answers '{}'", hist_str(alpha, &hist), r.name, got, cold[i]),
          {
            let mut v = vec!["hist".to_string(), alpha_tag.to_string()];
            v.extend(h2.iter().map(|x| x.to_string()));
            v
          },
        );
      }
      if !seen.contains_key(&after) {
        let mut h2 = hist.clone();
        h2.push(i);
        depth_reached = depth_reached.max(h2.len());
        seen.insert(after.clone(), h2.clone());
        states += 1;
        frontier.push_back((after, h2));
      }
    }
  }
  ctx.subspace(
    &format!("{}: BFS over memo states, alphabet of {} requests, depth {}; memo hits (state unchanged) {}", label, alpha.len(), match max_depth { Some(d) => format!("<= {}", d), None => "unbounded (fixpoint)".into() }, hits),
    complete,
    transitions,
  );
  for (k, v) in outcomes {
    ctx.outcome(&format!("answer:{}", k), v);
  }
  reset();
  (states, transitions, depth_reached, complete)
}

/// value-level lazy fields: every sequence of <= 3 getters gives the answers of a fresh value
fn value_level(ctx: &Ctx) {
  fn fresh_day(d: &LunarDay) -> LunarDay {
    LunarDay::from_ymd(d.get_year(), d.get_month(), d.get_day())
  }
  fn fresh_hour(h: &LunarHour) -> LunarHour {
    LunarHour::from_ymd_hms(h.get_year(), h.get_month(), h.get_day(), h.get_hour(), h.get_minute(), h.get_second())
  }
  let getters: Vec<(&str, fn(&LunarDay) -> String)> = vec![
    ("get_solar_day", |d| d.get_solar_day().to_string()),
    ("get_sixty_cycle_day", |d| d.get_sixty_cycle_day().to_string()),
    ("get_sixty_cycle", |d| d.get_sixty_cycle().to_string()),
    ("get_week", |d| d.get_week().to_string()),
    ("get_duty", |d| d.get_duty().to_string()),
    ("clone.get_solar_day", |d| d.clone().get_solar_day().to_string()),
    ("next(0).get_sixty_cycle_day", |d| d.next(0).get_sixty_cycle_day().to_string()),
    ("next(1).get_solar_day", |d| d.next(1).get_solar_day().to_string()),
    ("next(3).get_solar_day", |d| d.next(3).get_solar_day().to_string()),
    ("next(-2).get_sixty_cycle_day", |d| d.next(-2).get_sixty_cycle_day().to_string()),
    ("next(30).get_solar_day", |d| d.next(30).get_solar_day().to_string()),
    ("next(-30).get_week", |d| d.next(-30).get_week().to_string()),
    ("get_hours[12].get_solar_time", |d| d.get_hours()[12].get_solar_time().to_string()),
    ("next(1).next(-1).get_solar_day", |d| d.next(1).next(-1).get_solar_day().to_string()),
    ("get_lunar_month.get_days[last].get_solar_day", |d| d.get_lunar_month().get_days().last().unwrap().get_solar_day().to_string()),
    // equality and order against a fresh value of the same / the next day must not depend on which lazy fields are filled
    ("== fresh / fresh ==", |d| format!("{} {}", *d == fresh_day(d), fresh_day(d) == *d)),
    ("order vs fresh next(1)", |d| {
      let n = fresh_day(d).next(1);
      format!("{} {} {} {}", d.is_before(n.clone()), d.is_after(n.clone()), n.is_before(d.clone()), n.is_after(d.clone()))
    }),
    ("get_solar_day.get_lunar_day == self", |d| (d.get_solar_day().get_lunar_day() == *d).to_string()),
  ];
  let hgetters: Vec<(&str, fn(&LunarHour) -> String)> = vec![
    ("get_solar_time", |h| h.get_solar_time().to_string()),
    ("get_sixty_cycle_hour", |h| h.get_sixty_cycle_hour().to_string()),
    ("get_eight_char", |h| h.get_eight_char().get_name()),
    ("clone.get_solar_time", |h| h.clone().get_solar_time().to_string()),
    ("next(0).get_sixty_cycle_hour", |h| h.next(0).get_sixty_cycle_hour().to_string()),
    ("next(1).get_solar_time", |h| h.next(1).get_solar_time().to_string()),
    ("next(-1).get_sixty_cycle_hour", |h| h.next(-1).get_sixty_cycle_hour().to_string()),
    ("next(13).get_solar_time", |h| h.next(13).get_solar_time().to_string()),
    ("get_lunar_day.get_solar_day", |h| h.get_lunar_day().get_solar_day().to_string()),
    ("get_lunar_day.next(2).get_solar_day", |h| h.get_lunar_day().next(2).get_solar_day().to_string()),
    ("get_twelve_star", |h| h.get_twelve_star().to_string()),
    // the day reached through the hour must answer like a fresh day (day-level pillars, duty)
    ("get_lunar_day.get_sixty_cycle_day", |h| h.get_lunar_day().get_sixty_cycle_day().to_string()),
    ("get_lunar_day.get_duty", |h| h.get_lunar_day().get_duty().to_string()),
    ("== fresh / order vs fresh next(1)", |h| {
      let n = fresh_hour(h).next(1);
      format!("{} {} {} {} {}", *h == fresh_hour(h), h.is_before(n.clone()), h.is_after(n.clone()), n.is_before(h.clone()), n.is_after(h.clone()))
    }),
    ("order vs fresh hour of the same day", |h| {
      let o = LunarHour::from_ymd_hms(h.get_year(), h.get_month(), h.get_day(), 10, 0, 0);
      format!("{} {} {} {}", h.is_before(o.clone()), h.is_after(o.clone()), o.is_before(h.clone()), o.is_after(h.clone()))
    }),
  ];
  // (2023,12,25) = 2024-02-04 (Lichun 16:27) and (2024,2,26) = 2024-04-04 (Qingming 15:02): term days, whose hours before the
  // term instant carry another month (and year) pillar than the day does
  let days: Vec<(isize, isize, usize)> = vec![(2020, -4, 1), (2020, 4, 30), (2021, 12, 29), (1582, 9, 18), (1582, 9, 19), (30, 1, 1), (9999, 11, 30), (2033, -11, 1), (2023, 2, 30), (1, 1, 1), (2023, 12, 25), (2024, 2, 26)];
  // unit u = 5 * day + (0 = the day itself, 1..4 = hours 0, 1, 12, 23)
  let done = par_chunks_n(ctx, THREADS, 0, days.len() * 5, 1, |ua, ub, l| {
    for u in ua..ub {
      let (y, m, d) = days[u / 5];
      if guard(|| LunarDay::from_ymd(y, m, d)).is_err() {
        continue;
      }
      l.states += 1;
      if u % 5 == 0 {
        let mk = || LunarDay::from_ymd(y, m, d);
        let fresh: Vec<String> = getters.iter().map(|g| guard(|| (g.1)(&mk())).unwrap_or_else(|_| "REFUSED".into())).collect();
        let k = getters.len();
        for a in 0..k {
          for b in 0..=k {
            for c in 0..=k {
              if b == k && c != k {
                continue;
              }
              let seq: Vec<usize> = [a, b, c].iter().cloned().filter(|&x| x < k).collect();
              let v = mk();
              for &g in &seq {
                let got = guard(|| (getters[g].1)(&v)).unwrap_or_else(|_| "REFUSED".into());
                l.transitions += 1;
                if got != fresh[g] {
                  ctx.violation(
                    "value_memo",
                    format!("LunarDay({},{},{}) seq {:?}", y, m, d, seq.iter().map(|&x| getters[x].0).collect::<Vec<_>>()),
                    format!("getter {} answered '{}' after the sequence, '{}' on a fresh value", getters[g].0, got, fresh[g]),
                    vec!["value".into()],
                  );
                }
              }
            }
          }
        }
      } else {
        let hh = [0usize, 1, 12, 23][u % 5 - 1];
        let mkh = || LunarHour::from_ymd_hms(y, m, d, hh, 59, 59);
        let fresh: Vec<String> = hgetters.iter().map(|g| guard(|| (g.1)(&mkh())).unwrap_or_else(|_| "REFUSED".into())).collect();
        let k = hgetters.len();
        for a in 0..k {
          for b in 0..=k {
            for c in 0..=k {
              if b == k && c != k {
                continue;
              }
              let seq: Vec<usize> = [a, b, c].iter().cloned().filter(|&x| x < k).collect();
              let v = mkh();
              for &g in &seq {
                let got = guard(|| (hgetters[g].1)(&v)).unwrap_or_else(|_| "REFUSED".into());
                l.transitions += 1;
                if got != fresh[g] {
                  ctx.violation(
                    "value_memo",
                    format!("LunarHour({},{},{} {}h) seq {:?}", y, m, d, hh, seq.iter().map(|&x| hgetters[x].0).collect::<Vec<_>>()),
                    format!("getter {} answered '{}' after the sequence, '{}' on a fresh value", hgetters[g].0, got, fresh[g]),
                    vec!["value".into()],
                  );
                }
              }
            }
          }
        }
      }
    }
  });
  ctx.subspace(&format!("value-level lazy fields: every sequence of <= 3 of the {} day / {} hour observers (incl. next(n) after a getter filled the lazy fields, equality / order against fresh values, the day reached through an hour) on {} lunar days (two of them Jie days) x (day + 4 hours), each answer compared with the answer of a fresh value", getters.len(), hgetters.len(), days.len()), done, (days.len() * 5) as u64);
}

// ---------------------------------------------------------------------------------------------
// Phase C: generic history explorer. Alphabet = (date, observer) requests on a grid built so that keys collide under
// many plausible *unknown* cachings (adjacent years, December 26-31 vs January 1-6, (Y, 11|12) vs (10Y+1, 1|2),
// same year / different month, far eras). Cold answers come from one fresh OS process per request (so that state the
// hooks do not know about is cold too); the explorer then runs, in one process, a history that contains every ordered
// pair of requests adjacently and compares every answer with its cold answer.

pub const OBSERVERS: usize = 9;

fn grid(quick: bool) -> Vec<(isize, usize, usize)> {
  let years: Vec<isize> = if quick { vec![2, 21, 202, 1582, 1964, 2020, 2021, 2024, 9000] } else { vec![1, 2, 11, 12, 21, 202, 203, 1582, 1904, 1964, 1999, 2000, 2020, 2021, 2023, 2024, 2084, 9000, 9998] };
  let months: Vec<usize> = if quick { vec![1, 12] } else { vec![1, 2, 11, 12] };
  let days: Vec<usize> = if quick { vec![1, 6, 26] } else { vec![1, 6, 26, 28] };
  let mut v = Vec::new();
  for &y in &years {
    for &m in &months {
      for &d in &days {
        v.push((y, m, d));
      }
    }
  }
  v
}

pub fn observe(date: (isize, usize, usize), obs: usize) -> String {
  let (y, m, d) = date;
  let r = guard(|| {
    let sd = SolarDay::from_ymd(y, m, d);
    match obs {
      0 => format!("{} doy {} week {}", sd.get_julian_day().get_day(), sd.get_index_in_year(), sd.get_week().get_index()),
      1 => {
        let l = sd.get_lunar_day();
        format!("{} -> {}", l, l.get_solar_day())
      }
      2 => {
        let t = sd.get_term_day();
        format!("{} {} jd {}", t, t.get_solar_term().get_year(), t.get_solar_term().get_julian_day().get_day())
      }
      3 => {
        let s = sd.get_sixty_cycle_day();
        format!("{} duty {} star {}", s, s.get_duty(), s.get_nine_star())
      }
      4 => {
        let h = SolarTime::from_ymd_hms(y, m, d, 23, 30, 0).get_lunar_hour();
        format!("{} / {}", h.get_eight_char().get_name(), h.get_sixty_cycle_hour())
      }
      5 => {
        let ly = LunarYear::from_year(y);
        let lm = LunarMonth::from_ym(y, m as isize);
        format!("leap {} count {} days {} next {} first {}", ly.get_leap_month(), ly.get_month_count(), ly.get_day_count(), fmt_month(&lm.next(1)), lm.get_first_julian_day().get_day())
      }
      6 => format!("{:?} {:?} {:?}", sd.get_festival().map(|f| f.to_string()), sd.get_lunar_day().get_festival().map(|f| f.to_string()), sd.get_legal_holiday().map(|f| f.to_string())),
      7 => {
        let c = ChildLimit::from_solar_time(SolarTime::from_ymd_hms(y, m, d, 1, 11, 19), Gender::WOMAN);
        format!("{} {}", c.get_end_time(), c.get_start_decade_fortune().get_name())
      }
      _ => {
        // the same (month, day) read as a *lunar* date (years 60 apart share their sexagenary name): day 26 stands for
        // day 29, whose New-Year's-Eve status depends on the length of the year's last month
        let ld = LunarDay::from_ymd(y, m as isize, if d >= 26 { 29 } else if d >= 15 { 15 } else { d });
        format!("{} = {} festival {:?} gods {}", ld, ld.get_solar_day(), ld.get_festival().map(|f| f.to_string()), ld.get_gods().len())
      }
    }
  });
  r.unwrap_or_else(|_| "REFUSED".into())
}

/// entry point of the one-request cold process: `tyme-mc cold <quick|thorough> <request index>`
pub fn cold_main(quick: bool, idx: usize) {
  let g = grid(quick);
  let date = g[idx / OBSERVERS];
  println!("{}", observe(date, idx % OBSERVERS));
}

fn cold_answers(ctx: &Ctx, quick: bool, n: usize) -> Option<Vec<String>> {
  let exe = std::env::current_exe().ok()?;
  let out: std::sync::Mutex<Vec<(usize, String)>> = std::sync::Mutex::new(Vec::new());
  let failed = std::sync::atomic::AtomicBool::new(false);
  par_chunks_n(ctx, 16, 0, n, 1, |a, _b, _l| {
    let r = std::process::Command::new(&exe).arg("cold").arg(if quick { "quick" } else { "thorough" }).arg(a.to_string()).env_remove("VERIF_PART").output();
    match r {
      Ok(o) if o.status.success() => out.lock().unwrap().push((a, String::from_utf8_lossy(&o.stdout).trim_end().to_string())),
      _ => failed.store(true, std::sync::atomic::Ordering::Relaxed),
    }
  });
  if failed.load(std::sync::atomic::Ordering::Relaxed) {
    return None;
  }
  let mut v = vec![String::new(); n];
  let got = out.into_inner().unwrap();
  if got.len() != n {
    return None;
  }
  for (i, s) in got {
    v[i] = s;
  }
  Some(v)
}

fn generic_histories(ctx: &Ctx) {
  let quick = ctx.quick();
  let g = grid(quick);
  let n = g.len() * OBSERVERS;
  let cold = match cold_answers(ctx, quick, n) {
    Some(c) => c,
    None => {
      ctx.note("phase C skipped: cold-answer processes could not be run".into());
      ctx.subspace("C generic histories: skipped (cold processes unavailable)", false, 0);
      return;
    }
  };
  let mut l = Local::default();
  let mut check = |date_i: usize, obs: usize, prev: Option<(usize, usize)>, l: &mut Local| {
    let got = observe(g[date_i], obs);
    l.transitions += 1;
    let want = &cold[date_i * OBSERVERS + obs];
    if &got != want {
      let p = prev.map(|(pd, po)| format!("{:?}/obs{}", g[pd], po)).unwrap_or("-".into());
      ctx.violation(
        "generic_history",
        format!("{:?}/obs{} after {}", g[date_i], obs, p),
        format!("request ({:?}, observer {}) answered '{}' in a long history (directly after {}), but '{}' in a fresh process", g[date_i], obs, got, p, want),
        vec!["generic".into(), if quick { "quick".into() } else { "thorough".into() }, date_i.to_string(), obs.to_string(), prev.map(|x| x.0.to_string()).unwrap_or("-1".into()), prev.map(|x| x.1.to_string()).unwrap_or("0".into())],
      );
    }
  };
  // (i) per observer: every ordered pair of dates adjacently
  for obs in 0..OBSERVERS {
    for i in 0..g.len() {
      for j in 0..g.len() {
        if ctx.expired() {
          ctx.subspace("C generic histories: deadline", false, l.transitions);
          ctx.add(&l);
          return;
        }
        check(i, obs, None, &mut l);
        check(j, obs, Some((i, obs)), &mut l);
      }
    }
    l.traces += 1;
  }
  // (ii) across observers: every ordered pair of (date, observer) on a sub-grid
  let sub: Vec<usize> = (0..g.len()).step_by(if quick { 6 } else { 13 }).collect();
  for &i in &sub {
    for oi in 0..OBSERVERS {
      for &j in &sub {
        for oj in 0..OBSERVERS {
          check(i, oi, None, &mut l);
          check(j, oj, Some((i, oi)), &mut l);
        }
      }
    }
  }
  l.states += n as u64;
  l.nontrivial += n as u64;
  let t = l.transitions;
  ctx.add(&l);
  ctx.subspace(&format!("C generic histories: {} requests ({} dates x {} observers), cold answer of each from its own fresh OS process; one in-process history containing every ordered pair of dates adjacently for each observer, and every ordered pair of (date, observer) on a {}-date sub-grid", n, g.len(), OBSERVERS, sub.len()), true, t);
}

fn alpha_by_tag(tag: &str) -> Vec<Req> {
  match tag {
    "coreq" => core_alphabet(true),
    "core" => core_alphabet(false),
    _ => {
      let mut a = core_alphabet(false);
      a.extend(derived_alphabet());
      a
    }
  }
}

/// `LunarYear::get_leap_month` scans a HashMap, whose iteration order differs from process to process (per-process random
/// hash seed: a source of nondeterminism no scheduler controls). The answer is independent of that order iff no year
/// occurs in two of the twelve lists; checked on the decoded table itself (hook), together with answer = the unique list.
fn leap_table_order_independent(ctx: &Ctx) {
  let lists = tyme4rs::tyme::lunar::verif_leap_lists();
  let mut owner: std::collections::HashMap<isize, usize> = std::collections::HashMap::new();
  let mut l = Local::default();
  if lists.len() != 12 || lists.iter().enumerate().any(|(i, (k, _))| *k != i + 1) {
    ctx.violation("leap_table", "keys".into(), format!("the leap table has keys {:?} (model: 1..=12)", lists.iter().map(|x| x.0).collect::<Vec<_>>()), vec!["leaptable".into()]);
  }
  for (m, ys) in &lists {
    for y in ys {
      l.transitions += 1;
      if let Some(prev) = owner.insert(*y, *m) {
        ctx.violation("leap_table", format!("{:04}", y), format!("lunar year {} is listed under leap month {} and under leap month {}: get_leap_month depends on the HashMap iteration order, which differs between processes", y, prev, m), vec!["leaptable".into()]);
      }
    }
  }
  for y in 0..=9999isize {
    l.states += 1;
    let want = owner.get(&y).cloned().unwrap_or(0);
    let got = guard(|| LunarYear::from_year(y).get_leap_month());
    if got != Ok(want) {
      ctx.violation("leap_table", format!("{:04}", y), format!("get_leap_month({}) = {:?}, the table lists it under {}", y, got, want), vec!["leaptable".into()]);
    }
  }
  ctx.add(&l);
  ctx.subspace("leap-month table (decoded, via hook): no year in two lists (answer independent of HashMap iteration order, the only per-process nondeterminism), get_leap_month of every year 0..9999 = its list", true, 10000);
}

/// one long history: every lunar month of 0..9999 is requested once (123,684 distinct keys, far beyond any plausible
/// capacity bound of the memo), then every month is requested again and must equal the cache-free constructor
fn long_history(ctx: &Ctx) {
  reset();
  let mut keys: Vec<(isize, isize)> = Vec::new();
  for y in 0..=9999isize {
    let lp = LunarYear::from_year(y).get_leap_month() as isize;
    for m in 1..=12isize {
      keys.push((y, m));
      if m == lp {
        keys.push((y, -m));
      }
    }
  }
  let mut l = Local::default();
  for pass in 0..2 {
    for &(y, m) in &keys {
      l.transitions += 1;
      let got = guard(|| fmt_month(&LunarMonth::from_ym(y, m)));
      if pass == 1 {
        let want = guard(|| fmt_month(&LunarMonth::new(y, m).unwrap()));
        if got != want {
          ctx.violation("long_history", format!("{:04}-{}", y, m), format!("after {} distinct month requests, from_ym({}, {}) = {:?}; cache-free constructor = {:?}", keys.len(), y, m, got, want), vec!["longhistory".into()]);
        }
      }
    }
  }
  l.states = keys.len() as u64;
  l.traces += 1;
  ctx.add(&l);
  ctx.subspace(&format!("long history: all {} lunar months of 0..9999 requested, then requested again: every repeated answer = cache-free constructor", keys.len()), true, keys.len() as u64);
  reset();
}

pub fn run(ctx: &Ctx) {
  ctx.assume("state = canonical (sorted memo snapshot, poison flags) read through the cfg(tyme4rs_verif) hooks; each state is rebuilt by replaying its shortest history on the real code after verif_reset(); oracle = cold answer and the cache-free LunarMonth::new");
  ctx.assume("the three process-wide locks and the two per-value RefCell memos are the only mutable state (no unsafe, no I/O, no clock) -- established by reading the source");
  let mut l = Local::default();
  // phase A: fixpoint on the core alphabet
  let core = core_alphabet(ctx.quick());
  let (s, t, d, _c) = explore(ctx, "A core alphabet", &core, None, if ctx.quick() { "coreq" } else { "core" });
  l.states += s;
  l.transitions += t;
  l.traces += s; // one validated shortest history per state
  ctx.note(format!("phase A: {} memo states, {} transitions, BFS depth {}", s, t, d));
  // phase B: full alphabet, bounded depth
  let full = alpha_by_tag("full");
  let depth = if ctx.quick() { 2 } else { 3 };
  let (s, t, d, _c) = explore(ctx, "B full alphabet", &full, Some(depth), "full");
  l.states += s;
  l.transitions += t;
  l.traces += s;
  l.nontrivial += s;
  ctx.note(format!("phase B: {} memo states, {} transitions, BFS depth {}", s, t, d));
  ctx.add(&l);
  value_level(ctx);
  generic_histories(ctx);
  leap_table_order_independent(ctx);
  long_history(ctx);
  ctx.sample(format!("history [from_ym(1,12) ; from_ym(11,2)] -> '{}'", {
    reset();
    let _ = answer(Kind::Month(1, 12));
    answer(Kind::Month(11, 2))
  }));
  ctx.sample(format!("history [from_ym(2021,13) refused ; from_ym(2021,2)] -> '{}'", {
    reset();
    let _ = answer(Kind::Month(2021, 13));
    answer(Kind::Month(2021, 2))
  }));
  reset();
}

pub fn replay(ctx: &Ctx, args: &[String]) {
  match args[0].as_str() {
    "hist" => {
      let alpha = alpha_by_tag(&args[1]);
      let hist: Vec<usize> = args[2..].iter().filter_map(|a| a.parse().ok()).collect();
      let (last, prefix) = hist.split_last().expect("non-empty history");
      reset();
      let cold = answer(alpha[*last].kind);
      replay_history(&alpha, prefix);
      println!("replay C10 history:");
      for &i in prefix {
        println!("  {}", alpha[i].name);
      }
      let got = answer(alpha[*last].kind);
      println!("  then {} -> '{}'", alpha[*last].name, got);
      println!("  cold answer      -> '{}'", cold);
      if got != cold {
        ctx.violation("history", hist_str(&alpha, &hist), format!("after history [{}] the request {} answers '{}' but in a fresh process state it answers '{}'", hist_str(&alpha, prefix), alpha[*last].name, got, cold), vec![]);
      }
      reset();
    }
    "generic" => {
      let quick = args[1] == "quick";
      let g = grid(quick);
      let n: Vec<i64> = args[2..].iter().filter_map(|a| a.parse().ok()).collect();
      let (di, ob, pd, po) = (n[0] as usize, n[1] as usize, n[2], n[3] as usize);
      let exe = std::env::current_exe().unwrap();
      let o = std::process::Command::new(&exe).arg("cold").arg(&args[1]).arg((di * OBSERVERS + ob).to_string()).output().unwrap();
      let cold = String::from_utf8_lossy(&o.stdout).trim_end().to_string();
      if pd >= 0 {
        println!("  first  {:?} observer {} -> '{}'", g[pd as usize], po, observe(g[pd as usize], po));
      }
      let got = observe(g[di], ob);
      println!("  then   {:?} observer {} -> '{}'", g[di], ob, got);
      println!("  fresh process              -> '{}'", cold);
      if got != cold {
        ctx.violation("generic_history", format!("{:?}/obs{} after {}", g[di], ob, if pd >= 0 { format!("{:?}/obs{}", g[pd as usize], po) } else { "-".into() }), format!("answered '{}' after the earlier request, '{}' in a fresh process", got, cold), vec![]);
      }
    }
    "leaptable" => leap_table_order_independent(ctx),
    "longhistory" => long_history(ctx),
    _ => value_level(ctx),
  }
}
