//! C12 Clock arithmetic to the second and Julian-date <-> clock conversion.
//! State = instant (lattice: chosen clock times of every civil day); transitions = next(n seconds),
//! subtract, order, to/from Julian date; oracle = instant ordinal (86400 * day ordinal + second of day).

use crate::engine::*;
use crate::refmodel::civil::*;
use tyme4rs::tyme::jd::JulianDay;
use tyme4rs::tyme::solar::SolarTime;
use tyme4rs::tyme::Tyme;

const TIMES: [i64; 6] = [0, 1, 43199, 43200, 86398, 86399];

fn alphabet(quick: bool) -> Vec<i64> {
  let base: Vec<i64> = if quick { vec![1, 60, 3601, 86399, 86400, 31 * 86400, 1_000_000_000] } else { vec![1, 2, 59, 60, 61, 3599, 3600, 3601, 86399, 86400, 86401, 864000, 31 * 86400, 366 * 86400, 1_000_000_000] };
  let mut v = Vec::new();
  for b in base {
    v.push(b);
    v.push(-b);
  }
  v.push(0);
  v
}

pub fn mk_time(civ: &Civil, inst: i64) -> SolarTime {
  let d = civ.date((inst / 86400) as usize);
  let s = inst % 86400;
  SolarTime::from_ymd_hms(d.0 as isize, d.1 as usize, d.2 as usize, (s / 3600) as usize, (s / 60 % 60) as usize, (s % 60) as usize)
}

pub fn inst_of(civ: &Civil, t: &SolarTime) -> Option<i64> {
  let o = civ.ord(t.get_year() as i32, t.get_month() as u8, t.get_day() as u8)?;
  if t.get_hour() > 23 || t.get_minute() > 59 || t.get_second() > 59 {
    return None;
  }
  Some(o as i64 * 86400 + (t.get_hour() * 3600 + t.get_minute() * 60 + t.get_second()) as i64)
}

pub fn fmt_inst(civ: &Civil, inst: i64) -> String {
  let max = civ.len() as i64 * 86400;
  if inst < 0 || inst >= max {
    return format!("(instant {} outside 0001..9999)", inst);
  }
  let s = inst % 86400;
  format!("{} {:02}:{:02}:{:02}", fmt_ymd(civ.date((inst / 86400) as usize)), s / 3600, s / 60 % 60, s % 60)
}

fn check_step(ctx: &Ctx, civ: &Civil, inst: i64, alpha: &[i64], loc: &mut Local) {
  let max = civ.len() as i64 * 86400;
  loc.states += 1;
  let x = match guard(|| mk_time(civ, inst)) {
    Ok(x) => x,
    Err(m) => {
      ctx.violation("construct", fmt_inst(civ, inst), format!("valid instant refused: {}", m), vec!["inst".into(), inst.to_string()]);
      return;
    }
  };
  for &n in alpha {
    let t = inst + n;
    if t < 0 || t >= max {
      continue;
    }
    loc.transitions += 1;
    let r = guard(|| {
      let y = x.next(n as isize);
      (inst_of(civ, &y), y.subtract(x), x.subtract(y), x.is_before(y), x.is_after(y), y.is_before(x), y.is_after(x))
    });
    let key = format!("{} n={:+}", fmt_inst(civ, inst), n);
    let rp = vec!["inst".to_string(), inst.to_string(), n.to_string()];
    match r {
      Ok((got, d1, d2, xb, xa, yb, ya)) => {
        if got != Some(t) {
          ctx.violation("next", key, format!("next({}) = {} model = {}", n, got.map(|g| fmt_inst(civ, g)).unwrap_or("invalid instant".into()), fmt_inst(civ, t)), rp);
        } else {
          if d1 as i64 != n || d2 as i64 != -n {
            ctx.violation("subtract", key.clone(), format!("y.subtract(x)={} x.subtract(y)={} model {} / {}", d1, d2, n, -n), rp.clone());
          }
          if (xb, xa, yb, ya) != (n > 0, n < 0, n < 0, n > 0) {
            ctx.violation("order", key, format!("x.is_before(y)={} x.is_after(y)={} y.is_before(x)={} y.is_after(x)={} with y = x {:+} s", xb, xa, yb, ya, n), rp);
          }
        }
      }
      Err(m) => ctx.violation("next", key, format!("next({}) panics: {}; model = {}", n, m, fmt_inst(civ, t)), rp),
    }
  }
}

fn check_roundtrip(ctx: &Ctx, civ: &Civil, inst: i64, loc: &mut Local) {
  loc.transitions += 1;
  let r = guard(|| {
    let x = mk_time(civ, inst);
    let jd = x.get_julian_day();
    (jd.get_day(), inst_of(civ, &jd.get_solar_time()), inst_of_day(civ, &jd))
  });
  let rp = vec!["rt".to_string(), inst.to_string()];
  match r {
    Ok((jd, back, day)) => {
      let want = JD0 + inst as f64 / 86400.0;
      if (jd - want).abs() > 2e-9 {
        ctx.violation("to_jd", fmt_inst(civ, inst), format!("get_julian_day={} model={}", jd, want), rp.clone());
      }
      if back != Some(inst) {
        ctx.violation("roundtrip", fmt_inst(civ, inst), format!("instant -> JD {} -> {}", jd, back.map(|b| fmt_inst(civ, b)).unwrap_or("invalid".into())), rp.clone());
      }
      // the Julian date of the instant stepped by whole days is the Julian date of the instant that many days later
      for k in [0i64, 1, -1, -366] {
        let t = inst + 86400 * k;
        if t < 86400 || t >= (civ.len() as i64 - 1) * 86400 {
          continue;
        }
        let got = guard(|| inst_of(civ, &mk_time(civ, inst).get_julian_day().next(k as isize).get_solar_time()));
        if got != Ok(Some(t)) {
          ctx.violation("roundtrip", format!("{} JD.next({})", fmt_inst(civ, inst), k), format!("get_julian_day().next({}).get_solar_time() = {:?}; model {}", k, got.map(|g| g.map(|x| fmt_inst(civ, x))), fmt_inst(civ, t)), rp.clone());
        }
      }
      if day != Some(inst / 86400) {
        ctx.violation("roundtrip", fmt_inst(civ, inst), format!("JulianDay::get_solar_day gives day ordinal {:?}, model {}", day, inst / 86400), rp);
      }
    }
    Err(m) => ctx.violation("roundtrip", fmt_inst(civ, inst), format!("panics: {}", m), rp),
  }
}

fn inst_of_day(civ: &Civil, jd: &JulianDay) -> Option<i64> {
  let d = jd.get_solar_day();
  civ.ord(d.get_year() as i32, d.get_month() as u8, d.get_day() as u8).map(|o| o as i64)
}

/// (c) fractional Julian dates around a carry point: point + k * 0.1 s, k in -10..=10
fn check_grid(ctx: &Ctx, civ: &Civil, point: i64, loc: &mut Local) {
  let max = civ.len() as i64 * 86400;
  for k in -10i64..=10 {
    let t = point as f64 + k as f64 * 0.1;
    // the rounded instant must stay inside 0001..9999
    if t < 0.5 || t > (max - 1) as f64 - 0.5 {
      continue;
    }
    loc.transitions += 1;
    let jd = JD0 + t / 86400.0;
    let r = guard(|| inst_of(civ, &JulianDay::from_julian_day(jd).get_solar_time()));
    let key = format!("{} {:+.1}s", fmt_inst(civ, point), k as f64 * 0.1);
    let rp = vec!["grid".to_string(), point.to_string()];
    // the date of a fractional Julian date: the civil day that contains it, or the day of the second-rounded instant (the two
    // readings differ only in the last half second of a day; the property does not choose between them)
    let dr = guard(|| inst_of_day(civ, &JulianDay::from_julian_day(jd)));
    let contain = (t / 86400.0).floor() as i64;
    let rounded = ((t + 0.5).floor() as i64).div_euclid(86400);
    match dr {
      Ok(Some(o)) if o == contain || o == rounded => {}
      Ok(o) => ctx.violation("from_jd_day", key.clone(), format!("JD {} (= {} {:+.1} s): get_solar_day gives day ordinal {:?}; model {} (or {} for the rounded instant)", jd, fmt_inst(civ, point), k as f64 * 0.1, o, contain, rounded), rp.clone()),
      Err(m) => ctx.violation("from_jd_day", key.clone(), format!("JD {} (= {} {:+.1} s): get_solar_day panics: {}", jd, fmt_inst(civ, point), k as f64 * 0.1, m), rp.clone()),
    }
    match r {
      Ok(Some(got)) => {
        if (got as f64 - t).abs() > 0.501 {
          ctx.violation("from_jd", key, format!("JD {} (= {} {:+.1} s) -> {} which is {:.3} s away (model: within 0.5 s)", jd, fmt_inst(civ, point), k as f64 * 0.1, fmt_inst(civ, got), got as f64 - t), rp);
        }
      }
      Ok(None) => ctx.violation("from_jd", key, format!("JD {} -> invalid instant", jd), rp),
      Err(m) => ctx.violation("from_jd", key, format!("JD {} (= {} {:+.1} s): get_solar_time panics: {}", jd, fmt_inst(civ, point), k as f64 * 0.1, m), rp),
    }
  }
}

fn day_selected(civ: &Civil, ord: usize, quick: bool, w: &[(isize, isize)]) -> bool {
  if !quick {
    return true;
  }
  let d = civ.date(ord);
  let len = civ.days_in_month(d.0, d.1);
  let month_edge = d.2 <= 2 || d.2 >= 30 || (d.1 == 2 && d.2 >= 27) || (d.2 as i32 >= len as i32 - 1 && d.1 != 10);
  let cutover = d.0 == 1582 && (d.1 == 9 || d.1 == 10);
  (month_edge && (in_windows(w, d.0 as isize) || d.0 % 25 == 0)) || cutover
}

pub fn run(ctx: &Ctx) {
  let civ = Civil::build();
  let alpha = alphabet(ctx.quick());
  let w = quick_windows(ctx.seed);
  ctx.assume("instant ordinal = 86400 * odometer day ordinal + second of day; results outside 0001-01-01 00:00:00 .. 9999-12-31 23:59:59 are outside the claim");
  let n = civ.len();
  let done = par_chunks(ctx, 0, n, 1024, |a, b, l| {
    for o in a..b {
      if !day_selected(&civ, o, ctx.quick(), &w) {
        continue;
      }
      let d = civ.date(o);
      if d.2 == 1 {
        l.nontrivial += 1;
      }
      for &s in &TIMES {
        let inst = o as i64 * 86400 + s;
        check_step(ctx, &civ, inst, &alpha, l);
        check_roundtrip(ctx, &civ, inst, l);
      }
      // carry points of the Julian-date conversion: hh:59:59 for every hour, plus mid-day controls
      // all 24 hour ends on month-boundary days (and Sept/Oct 1582); 00:59:59, 11:59:59 and 23:59:59 on every other day
      let edge = day_selected(&civ, o, true, &[(1, 9999)]);
      for h in 0..24i64 {
        if edge || h == 0 || h == 11 || h == 23 {
          check_grid(ctx, &civ, o as i64 * 86400 + h * 3600 + 3599, l);
        }
      }
      check_grid(ctx, &civ, o as i64 * 86400 + 43200, l);
      check_grid(ctx, &civ, o as i64 * 86400 + 12 * 3600 + 30 * 60 + 30, l);
      if d.1 == 1 && d.2 == 1 {
        l.traces += 1;
      }
    }
  });
  ctx.subspace(
    &format!(
      "(a)(b)(c) {} x clock times {{00:00:00, 00:00:01, 11:59:59, 12:00:00, 23:59:58, 23:59:59}} x next(n) n in {:?} + subtract/order + JD round trip; JD grid (+-1 s in 0.1 s steps) around every hh:59:59 and two mid-day controls",
      if ctx.quick() { "month-boundary days of the windows W and of every 25th year, and Sept/Oct 1582" } else { "every civil date 0001..9999" },
      alpha
    ),
    done,
    n as u64,
  );
  // acceptance of clock fields: every (hour 0..25, minute 0..61, second 0..61) on three days, and bad dates with good clocks
  if ctx.primary() {
    let mut l = Local::default();
    for d in [(2023, 1, 31), (1582, 10, 4), (9999, 12, 31)] {
      for h in 0..=25usize {
        for mi in 0..=61usize {
          for s in 0..=61usize {
            l.transitions += 1;
            let want = h < 24 && mi < 60 && s < 60;
            let got = guard(|| SolarTime::new(d.0, d.1, d.2, h, mi, s).is_ok()).unwrap_or(false);
            if got != want {
              ctx.violation("construct", format!("{:04}-{:02}-{:02} {:02}:{:02}:{:02}", d.0, d.1, d.2, h, mi, s), format!("SolarTime::new accepted={} model {}", got, want), vec!["accept".into()]);
            }
          }
        }
      }
    }
    for bad in [(1582isize, 10usize, 10usize), (2023, 2, 29), (2023, 13, 1), (0, 1, 1), (10000, 1, 1)] {
      l.transitions += 1;
      if guard(|| SolarTime::new(bad.0, bad.1, bad.2, 12, 0, 0).is_ok()).unwrap_or(false) {
        ctx.violation("construct", format!("{:04}-{:02}-{:02} 12:00:00", bad.0, bad.1, bad.2), "SolarTime::new accepted a non-existent date".into(), vec!["accept".into()]);
      }
    }
    ctx.add(&l);
    ctx.subspace("acceptance: every (hour 0..25, minute 0..61, second 0..61) on three days; five non-existent dates refused", true, 3 * 26 * 62 * 62);
  }
  // (b) every second of 6 chosen days
  let days = [(1582, 10, 4), (1582, 10, 15), (2000, 2, 29), (1, 1, 1), (9999, 12, 31), (2023, 1, 31)];
  let done = par_chunks(ctx, 0, days.len() * 86400, 3600, |a, b, l| {
    for i in a..b {
      let d = days[i / 86400];
      let o = civ.ord(d.0, d.1, d.2).unwrap();
      check_roundtrip(ctx, &civ, o as i64 * 86400 + (i % 86400) as i64, l);
    }
  });
  ctx.subspace("(b) every second of 6 chosen days: instant -> Julian date -> instant", done, 6 * 86400);
  for p in [(2023, 1, 31, 86399i64), (1582, 10, 4, 86399), (2000, 12, 31, 43199)] {
    let o = civ.ord(p.0, p.1, p.2).unwrap() as i64 * 86400 + p.3;
    let jd = JD0 + (o as f64 + 0.7) / 86400.0;
    let got = guard(|| inst_of(&civ, &JulianDay::from_julian_day(jd).get_solar_time()));
    ctx.sample(format!("JD {} (= {} + 0.7 s): impl {:?}; model nearest second {}", jd, fmt_inst(&civ, o), got.map(|g| g.map(|x| fmt_inst(&civ, x))), fmt_inst(&civ, o + 1)));
  }
}

pub fn replay(ctx: &Ctx, args: &[String]) {
  let civ = Civil::build();
  let n: Vec<i64> = args[1..].iter().filter_map(|a| a.parse().ok()).collect();
  let mut l = Local::default();
  match args[0].as_str() {
    "inst" => {
      let alpha = if n.len() > 1 { vec![n[1]] } else { alphabet(false) };
      println!("replay C12 instant {} steps {:?}", fmt_inst(&civ, n[0]), alpha);
      check_step(ctx, &civ, n[0], &alpha, &mut l);
    }
    "accept" => {
      println!("replay C12 acceptance grid: re-running the property's serial sections");
      run(ctx);
    }
    "rt" => {
      println!("replay C12 round trip of {}", fmt_inst(&civ, n[0]));
      check_roundtrip(ctx, &civ, n[0], &mut l);
    }
    _ => {
      println!("replay C12 JD grid around {}", fmt_inst(&civ, n[0]));
      check_grid(ctx, &civ, n[0], &mut l);
    }
  }
  ctx.add(&l);
}
