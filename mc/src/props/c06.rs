//! C06 Every day belongs to exactly one solar term: ordered, evenly spaced, consistent.
//! (a) the global term sequence; (b) from_index / next / from_name against the sequence;
//! (c) state = civil date, observer = get_term_day / get_term; (d) state = instant, observer = SolarTime::get_term.

use crate::engine::*;
use crate::props::c01::mk;
use crate::refmodel::civil::*;
use crate::refmodel::terms::*;
use tyme4rs::tyme::solar::{SolarTerm, SolarTime};
use tyme4rs::tyme::{Culture, Tyme};

fn gkey(g: isize) -> String {
  format!("{:05}-{:02}", g.div_euclid(24), g.rem_euclid(24))
}

fn check_seq(ctx: &Ctx, tm: &Terms, g: usize, loc: &mut Local) {
  loc.states += 1;
  let a = tm.t[g];
  let b = tm.t[g + 1];
  loc.transitions += 1;
  if a.jd.is_nan() || b.jd.is_nan() {
    ctx.violation("sequence", gkey(g as isize), "term instant not computable".into(), vec!["term".into(), g.to_string()]);
    return;
  }
  let gap = b.jd - a.jd;
  if !(gap >= 14.6 && gap <= 15.8) {
    ctx.violation("sequence", gkey(g as isize), format!("term {} at JD {} and the next at JD {}: gap {} days (model: 14.6..15.8, strictly increasing)", gkey(g as isize), a.jd, b.jd, gap), vec!["term".into(), g.to_string()]);
  }
  if a.inst != i64::MIN {
    let want = (a.jd - JD0) * 86400.0;
    if (a.inst as f64 - want).abs() > 0.501 {
      ctx.violation("sequence", gkey(g as isize), format!("second-rounded instant {} differs from JD-derived {} by more than 0.5 s", a.inst, want), vec!["term".into(), g.to_string()]);
    }
  }
}

fn obs_term(t: &SolarTerm) -> (isize, usize, f64, String) {
  (t.get_year(), t.get_index(), t.get_julian_day().get_day(), t.get_name())
}

/// (b): from_index(y, i) for i in -30..=54, next(n) n in -50..=50, from_name, parity
fn check_construct(ctx: &Ctx, tm: &Terms, y: isize, quick: bool, loc: &mut Local) {
  let irange: Vec<isize> = if quick { vec![-25, -24, -1, 0, 1, 23, 24, 25, 47, 48] } else { (-30..=54).collect() };
  for &i in &irange {
    let g = g_of(y, i);
    if g < 0 || g as usize >= G_MAX {
      continue;
    }
    loc.transitions += 1;
    let want = tm.t[g as usize];
    let r = guard(|| obs_term(&SolarTerm::from_index(y, i)));
    let key = format!("{:05} i={:+}", y, i);
    let rp = vec!["construct".to_string(), y.to_string(), i.to_string()];
    match r {
      Ok((yy, ii, jd, name)) => {
        if yy != g.div_euclid(24) || ii as isize != g.rem_euclid(24) || jd != want.jd || name != TERM_NAMES[g.rem_euclid(24) as usize] {
          ctx.violation("from_index", key, format!("from_index({},{}) = (year {}, index {}, {}, JD {}), model = (year {}, index {}, {}, JD {})", y, i, yy, ii, name, jd, g.div_euclid(24), g.rem_euclid(24), TERM_NAMES[g.rem_euclid(24) as usize], want.jd), rp);
        }
      }
      Err(m) => ctx.violation("from_index", key, format!("from_index({},{}) panics: {}", y, i, m), rp),
    }
  }
  let nrange: Vec<isize> = if quick { vec![-49, -25, -24, -2, -1, 0, 1, 2, 23, 24, 25, 50] } else { (-50..=50).collect() };
  for i in 0..24isize {
    let g0 = g_of(y, i);
    loc.states += 1;
    // from_name, parity
    let r = guard(|| {
      let t = SolarTerm::from_name(y, TERM_NAMES[i as usize]);
      let u = SolarTerm::from_index(y, i);
      (obs_term(&t), u.is_jie(), u.is_qi())
    });
    loc.transitions += 1;
    match r {
      Ok(((yy, ii, jd, _), jie, qi)) => {
        if yy != y || ii as isize != i || jd != tm.t[g0 as usize].jd {
          ctx.violation("from_name", format!("{:05} i={:+}", y, i), format!("from_name({},{}) = (year {}, index {}, JD {}) model JD {}", y, TERM_NAMES[i as usize], yy, ii, jd, tm.t[g0 as usize].jd), vec!["construct".into(), y.to_string(), i.to_string()]);
        }
        if jie != (i % 2 == 1) || qi != (i % 2 == 0) {
          ctx.violation("from_name", format!("{:05} i={:+}", y, i), format!("is_jie={} is_qi={} for index {}", jie, qi, i), vec!["construct".into(), y.to_string(), i.to_string()]);
        }
      }
      Err(m) => ctx.violation("from_name", format!("{:05} i={:+}", y, i), format!("panics: {}", m), vec!["construct".into(), y.to_string(), i.to_string()]),
    }
    for &n in &nrange {
      let g = g0 + n;
      if g < 0 || g as usize >= G_MAX {
        continue;
      }
      loc.transitions += 1;
      let want = tm.t[g as usize];
      let r = guard(|| obs_term(&SolarTerm::from_index(y, i).next(n)));
      let key = format!("{:05}-{:02} n={:+}", y, i, n);
      let rp = vec!["next".to_string(), y.to_string(), i.to_string(), n.to_string()];
      match r {
        Ok((yy, ii, jd, _)) => {
          if yy != g.div_euclid(24) || ii as isize != g.rem_euclid(24) || jd != want.jd {
            ctx.violation("next", key, format!("({},{}).next({}) = (year {}, index {}, JD {}), model = (year {}, index {}, JD {})", y, i, n, yy, ii, jd, g.div_euclid(24), g.rem_euclid(24), want.jd), rp);
          }
        }
        Err(m) => ctx.violation("next", key, format!("panics: {}", m), rp),
      }
    }
  }
  loc.traces += 1;
}

fn check_day(ctx: &Ctx, civ: &Civil, tm: &Terms, ord: usize, loc: &mut Local) {
  let d = civ.date(ord);
  let g = match tm.g_of_day(ord) {
    Some(g) => g,
    None => return, // before the first representable term day
  };
  loc.states += 1;
  loc.transitions += 2;
  let want_idx = ord - tm.t[g].day as usize;
  if want_idx == 0 {
    loc.nontrivial += 1;
  }
  let r = guard(|| {
    let sd = mk(d);
    let td = sd.get_term_day();
    let t = td.get_solar_term();
    let t2 = sd.get_term();
    (t.get_year(), t.get_index(), td.get_day_index(), t2.get_year(), t2.get_index())
  });
  let rp = vec!["day".to_string(), d.0.to_string(), d.1.to_string(), d.2.to_string()];
  match r {
    Ok((y, i, di, y2, i2)) => {
      let wy = (g / 24) as isize;
      let wi = g % 24;
      if y != wy || i != wi || di != want_idx || di > 16 {
        ctx.violation("day_term", fmt_ymd(d), format!("get_term_day = (year {}, {}, day index {}), model = latest term on or before the date = (year {}, {}, day index {})", y, TERM_NAMES[i], di, wy, TERM_NAMES[wi], want_idx), rp.clone());
      }
      if y2 != y || i2 != i {
        ctx.violation("day_term", fmt_ymd(d), format!("get_term = (year {}, index {}) but get_term_day's term = (year {}, index {})", y2, i2, y, i), rp);
      }
    }
    Err(m) => ctx.violation("day_term", fmt_ymd(d), format!("get_term_day panics: {}; model = (year {}, {}, day index {})", m, g / 24, TERM_NAMES[g % 24], want_idx), rp),
  }
}

fn inst_to_time(civ: &Civil, inst: i64) -> Option<(Ymd, usize, usize, usize)> {
  let o = inst.div_euclid(86400);
  if o < 0 || o as usize >= civ.len() {
    return None;
  }
  let s = inst.rem_euclid(86400);
  Some((civ.date(o as usize), (s / 3600) as usize, (s / 60 % 60) as usize, (s % 60) as usize))
}

fn check_inst(ctx: &Ctx, civ: &Civil, tm: &Terms, inst: i64, loc: &mut Local) {
  let (d, h, mi, s) = match inst_to_time(civ, inst) {
    Some(x) => x,
    None => return,
  };
  let g = match tm.g_of_inst(inst) {
    Some(g) => g,
    None => return,
  };
  loc.transitions += 1;
  let r = guard(|| {
    let t = SolarTime::from_ymd_hms(d.0 as isize, d.1 as usize, d.2 as usize, h, mi, s).get_term();
    (t.get_year(), t.get_index())
  });
  let key = format!("{} {:02}:{:02}:{:02}", fmt_ymd(d), h, mi, s);
  let rp = vec!["inst".to_string(), inst.to_string()];
  match r {
    Ok((y, i)) => {
      if y != (g / 24) as isize || i != g % 24 {
        ctx.violation("time_term", key, format!("SolarTime::get_term = (year {}, {}), model = latest term at or before the instant = (year {}, {})", y, TERM_NAMES[i], g / 24, TERM_NAMES[g % 24]), rp);
      }
    }
    Err(m) => ctx.violation("time_term", key, format!("panics: {}; model = (year {}, {})", m, g / 24, TERM_NAMES[g % 24]), rp),
  }
}

pub fn run(ctx: &Ctx) {
  let civ = Civil::build();
  let tm = Terms::build(ctx, &civ);
  ctx.assume("a term's start is the instant / civil day the library itself reports for it (judged astronomically in C05); days of January 0001 before the first term day of year 1 are outside the claim (their term starts in 1 BC)");
  // (a)
  let done = par_chunks(ctx, 0, G_MAX - 1, 2000, |a, b, l| {
    for g in a..b {
      check_seq(ctx, &tm, g, l);
    }
  });
  ctx.subspace("(a) all 240,023 adjacent pairs of the global term sequence, years 0..10000", done, (G_MAX - 1) as u64);
  // (b)
  let done = par_chunks(ctx, 0, 10001, 20, |a, b, l| {
    for y in a..b {
      check_construct(ctx, &tm, y as isize, ctx.quick(), l);
    }
  });
  ctx.subspace(if ctx.quick() { "(b) from_index(y,i) i in {-25,-24,-1,0,1,23,24,25,47,48}, from_name, parity, next(n) n in 12 values, every year 0..10000 x 24 terms" } else { "(b) from_index(y,i) i in -30..54, from_name, parity, next(n) n in -50..50, every year 0..10000 x 24 terms" }, done, 10001 * 24);
  // (c) civil dates
  let years = years_for(ctx, 1, 9999);
  let mut ndates = 0u64;
  let mut done = true;
  let mut runs: Vec<(usize, usize)> = Vec::new();
  for &y in &years {
    let (a, b) = civ.year_range(y as i32, y as i32);
    if let Some(last) = runs.last_mut() {
      if last.1 == a {
        last.1 = b;
        continue;
      }
    }
    runs.push((a, b));
  }
  for (a, b) in &runs {
    ndates += (*b - *a) as u64;
    done &= par_chunks(ctx, *a, *b, 2048, |x, y, l| {
      for o in x..y {
        check_day(ctx, &civ, &tm, o, l);
      }
    });
  }
  ctx.subspace(&format!("(c) civil dates of {} years ({} dates): get_term_day / get_term vs latest term day on or before", years.len(), ndates), done, ndates);
  if ctx.quick() {
    // (c') the civil day of every term of years 1..9999, the day before and the day after (where the day -> term mapping turns)
    let done = par_chunks(ctx, 25, G_MAX - 24, 1000, |a, b, l| {
      for g in a..b {
        let t = tm.t[g];
        if t.day == u32::MAX {
          continue;
        }
        for o in [t.day as usize - 1, t.day as usize, t.day as usize + 1] {
          if o < civ.len() {
            check_day(ctx, &civ, &tm, o, l);
          }
        }
      }
    });
    ctx.subspace("(c') the civil day of every term of years 1..9999, the day before and the day after: get_term_day / get_term", done, (G_MAX - 49) as u64 * 3);
  }
  // (d) instants: every term's rounded instant -1 s, +0, +1 s (all terms), and noon + 23:59:59 of every date in the windows
  let done = par_chunks(ctx, 25, G_MAX - 24, 1000, |a, b, l| {
    for g in a..b {
      let t = tm.t[g];
      if t.inst == i64::MIN {
        continue;
      }
      l.states += 1;
      l.nontrivial += 1;
      for dt in [-1i64, 0, 1] {
        check_inst(ctx, &civ, &tm, t.inst + dt, l);
      }
    }
  });
  ctx.subspace("(d1) every term of years 1..9999: its second-rounded instant -1 s, +0, +1 s", done, (G_MAX - 49) as u64 * 3);
  let w = quick_windows(ctx.seed);
  let mut done = true;
  let mut ninst = 0u64;
  for &(ya, yb) in &w {
    let (a, b) = civ.year_range(ya as i32, yb as i32);
    ninst += 2 * (b - a) as u64;
    done &= par_chunks(ctx, a, b, 1024, |x, y, l| {
      for o in x..y {
        check_inst(ctx, &civ, &tm, o as i64 * 86400 + 43200, l);
        check_inst(ctx, &civ, &tm, o as i64 * 86400 + 86399, l);
      }
    });
  }
  ctx.subspace("(d2) 12:00:00 and 23:59:59 of every date of the windows W", done, ninst);
  for (y, i) in [(2023isize, 0isize), (2023, 3), (1, 1), (9999, 23)] {
    let t = tm.get(y, i);
    ctx.sample(format!("term ({}, {} {}): JD {} second-rounded instant {:?} civil day {}", y, i, TERM_NAMES[i as usize], t.jd, inst_to_time(&civ, t.inst), if t.day != u32::MAX { fmt_ymd(civ.date(t.day as usize)) } else { "-".into() }));
  }
}

pub fn replay(ctx: &Ctx, args: &[String]) {
  let civ = Civil::build();
  let nums: Vec<i64> = args[1..].iter().filter_map(|a| a.parse().ok()).collect();
  let mut l = Local::default();
  match args[0].as_str() {
    "term" => {
      let g = nums[0] as usize;
      let y = g / 24;
      let tm = Terms::build_range(ctx, &civ, y.saturating_sub(1), (y + 1).min(10000));
      println!("replay C06 term g={} JD {} next JD {}", g, tm.t[g].jd, tm.t[g + 1].jd);
      check_seq(ctx, &tm, g, &mut l);
    }
    "construct" | "next" => {
      let y = nums[0] as usize;
      let tm = Terms::build_range(ctx, &civ, y.saturating_sub(4), (y + 4).min(10000));
      println!("replay C06 constructors / stepping of year {}", y);
      check_construct(ctx, &tm, y as isize, false, &mut l);
    }
    "day" => {
      let y = nums[0] as usize;
      let tm = Terms::build_range(ctx, &civ, y.saturating_sub(1), (y + 1).min(10000));
      let o = civ.ord(nums[0] as i32, nums[1] as u8, nums[2] as u8).unwrap();
      let g = tm.g_of_day(o);
      println!("replay C06 day {}: model term g={:?}", fmt_ymd(civ.date(o)), g.map(|g| (g / 24, TERM_NAMES[g % 24], fmt_ymd(civ.date(tm.t[g].day as usize)))));
      check_day(ctx, &civ, &tm, o, &mut l);
    }
    _ => {
      let inst = nums[0];
      let y = (civ.date((inst / 86400) as usize).0) as usize;
      let tm = Terms::build_range(ctx, &civ, y.saturating_sub(1), (y + 1).min(10000));
      println!("replay C06 instant {:?}: model term g={:?}", inst_to_time(&civ, inst), tm.g_of_inst(inst).map(|g| (g / 24, TERM_NAMES[g % 24])));
      check_inst(ctx, &civ, &tm, inst, &mut l);
    }
  }
  ctx.add(&l);
}
