//! C17 Daily and hourly almanac cycles obey their defining recurrences.
//! State = civil date (day series), double-hour (hour series), year, (year, month); oracle = recurrences typed
//! from their classical statements over the term table and the (JDN+49) mod 60 day pillar.

use crate::engine::*;
use crate::props::c01::mk;
use crate::props::c08::ym_of_g;
use crate::props::c12::{fmt_inst, mk_time};
use crate::refmodel::civil::*;
use crate::refmodel::lunar::*;
use crate::refmodel::pillar::*;
use crate::refmodel::terms::*;
use tyme4rs::tyme::lunar::{LunarMonth, LunarYear};
use tyme4rs::tyme::sixtycycle::{SixtyCycleMonth, SixtyCycleYear};
use tyme4rs::tyme::Tyme;

/// branch on which 青龙 (first of the twelve Yellow/Black-path spirits) falls, by month branch (days) / day branch (hours):
/// 寅申 -> 子, 卯酉 -> 寅, 辰戌 -> 辰, 巳亥 -> 午, 子午 -> 申, 丑未 -> 戌
fn green_dragon_start(b: &str) -> &'static str {
  match b {
    "寅" | "申" => "子",
    "卯" | "酉" => "寅",
    "辰" | "戌" => "辰",
    "巳" | "亥" => "午",
    "子" | "午" => "申",
    "丑" | "未" => "戌",
    _ => panic!("branch"),
  }
}

fn twelve_star(anchor_branch: usize, running_branch: usize) -> usize {
  let start = branch_idx(green_dragon_start(BRANCHES[anchor_branch % 12]));
  (running_branch + 12 - start) % 12
}

/// flying star of the 寅 month by year branch: 子午卯酉 -> 八白, 辰戌丑未 -> 五黄, 寅申巳亥 -> 二黑 (index = number - 1)
fn month_star_start(year_branch: &str) -> i64 {
  match year_branch {
    "子" | "午" | "卯" | "酉" => 7,
    "辰" | "戌" | "丑" | "未" => 4,
    "寅" | "申" | "巳" | "亥" => 1,
    _ => panic!("branch"),
  }
}

/// start star of the Zi hour by day branch: ascending 一白/四绿/七赤, descending 九紫/六白/三碧
fn hour_star_start(day_branch: &str, asc: bool) -> i64 {
  let g = match day_branch {
    "子" | "午" | "卯" | "酉" => 0,
    "辰" | "戌" | "丑" | "未" => 1,
    _ => 2,
  };
  if asc {
    [0, 3, 6][g]
  } else {
    [8, 5, 2][g]
  }
}

/// the Jiazi day(s) nearest to day `ord` (two candidates on an exact 30/30 tie)
fn nearest_jiazi(civ: &Civil, ord: usize) -> Vec<i64> {
  let idx = day_pillar(civ.jdn(ord));
  if idx < 30 {
    vec![ord as i64 - idx]
  } else if idx > 30 {
    vec![ord as i64 + 60 - idx]
  } else {
    vec![ord as i64 - 30, ord as i64 + 30]
  }
}

/// acceptable day flying stars (index 0 = 一白) for a date
fn day_star_accept(civ: &Civil, tm: &Terms, ord: usize) -> Vec<i64> {
  let y = civ.date(ord).0 as isize;
  let mut anchors: Vec<(i64, bool)> = Vec::new(); // (day, ascending?)
  for yy in [y - 1, y, y + 1] {
    if yy < 1 || yy > 10000 {
      continue;
    }
    let w = tm.get(yy, 0).day;
    if w != u32::MAX {
      for a in nearest_jiazi(civ, w as usize) {
        anchors.push((a, true));
      }
    }
    if yy <= 9999 {
      let s = tm.get(yy, 12).day;
      if s != u32::MAX {
        for a in nearest_jiazi(civ, s as usize) {
          anchors.push((a, false));
        }
      }
    }
  }
  anchors.sort();
  let o = ord as i64;
  let mut acc = Vec::new();
  // forward alignment from the latest anchor(s) at or before the date; backward alignment from the next anchor after it
  let before: Vec<&(i64, bool)> = anchors.iter().filter(|a| a.0 <= o).collect();
  let after: Vec<&(i64, bool)> = anchors.iter().filter(|a| a.0 > o).collect();
  if let Some(last) = before.last() {
    for a in before.iter().filter(|a| a.1 == last.1 && (last.0 - a.0).abs() <= 60) {
      acc.push(if a.1 { (o - a.0).rem_euclid(9) } else { (8 - (o - a.0)).rem_euclid(9) });
    }
    // exact 30/30 tie: the date lies between the two candidate anchors of one solstice, so the previous run may still be going
    if after.iter().any(|a| a.1 == last.1 && a.0 - last.0 == 60) {
      if let Some(p) = before.iter().rev().find(|a| a.1 != last.1) {
        acc.push(if p.1 { (o - p.0).rem_euclid(9) } else { (8 - (o - p.0)).rem_euclid(9) });
      }
    }
  }
  if let Some(first) = after.first() {
    for a in after.iter().filter(|a| a.1 == first.1 && (first.0 - a.0).abs() <= 60) {
      // the day before an ascending start is 一白 at the end of a descending run; the day before a descending start is 九紫 at the end of an ascending run
      acc.push(if a.1 { (a.0 - o - 1).rem_euclid(9) } else { (8 - (a.0 - 1 - o)).rem_euclid(9) });
    }
  }
  acc.sort();
  acc.dedup();
  acc
}

fn check_day(ctx: &Ctx, civ: &Civil, tm: &Terms, ord: usize, prev_mansion: &mut Option<(usize, usize)>, loc: &mut Local) {
  let d = civ.date(ord);
  let g = match tm.g_of_day(ord) {
    Some(g) => g,
    None => return,
  };
  let (y, k, _) = ym_of_g(g);
  if y < 1 {
    return;
  }
  loc.states += 1;
  loc.transitions += 8;
  let dp = day_pillar(civ.jdn(ord));
  let db = (dp % 12) as usize;
  let mb = (2 + k) % 12;
  let want_duty = (db + 12 - mb) % 12;
  let want_twelve = twelve_star(mb, db);
  let want_wd = weekday(civ.jdn(ord)) as usize;
  let stars = day_star_accept(civ, tm, ord);
  let rp = vec!["day".to_string(), d.0.to_string(), d.1.to_string(), d.2.to_string()];
  let r = guard(|| {
    let sd = mk(d);
    let sc = sd.get_sixty_cycle_day();
    let ld = sd.get_lunar_day();
    let m1 = sc.get_twenty_eight_star();
    let m2 = ld.get_twenty_eight_star();
    (
      sc.get_duty().get_index(),
      ld.get_duty().get_index(),
      sc.get_twelve_star().get_index(),
      ld.get_twelve_star().get_index(),
      m1.get_index(),
      m2.get_index(),
      m1.get_seven_star().get_index(),
      if d.0 >= 2 { sc.get_nine_star().get_index() as i64 } else { -1 },
      if d.0 >= 2 { ld.get_nine_star().get_index() as i64 } else { -1 },
      ld.get_six_star().get_index(),
      ld.get_phase().get_index(),
      ld.get_minor_ren().get_index(),
      (ld.get_month(), ld.get_day()),
      ld.get_lunar_month().get_minor_ren().get_index(),
    )
  });
  match r {
    Ok((du1, du2, tw1, tw2, m1, m2, lum, ns1, ns2, six, phase, ren, (lm, lday), mren)) => {
      if du1 != want_duty || du2 != want_duty {
        ctx.violation("duty", fmt_ymd(d), format!("duty index {} / {} (sexagenary / lunar route), model (day branch {} - month branch {}) mod 12 = {}", du1, du2, BRANCHES[db], BRANCHES[mb], want_duty), rp.clone());
      }
      if tw1 != want_twelve || tw2 != want_twelve {
        ctx.violation("twelve_star", fmt_ymd(d), format!("twelve-star index {} / {}, model {} (青龙 on {} in a {} month, day branch {})", tw1, tw2, want_twelve, green_dragon_start(BRANCHES[mb]), BRANCHES[mb], BRANCHES[db]), rp.clone());
      }
      if m1 != m2 || lum != want_wd {
        ctx.violation("mansion", fmt_ymd(d), format!("mansion {} (sexagenary route) / {} (lunar route), luminary {} but weekday {}", m1, m2, lum, want_wd), rp.clone());
      }
      if let Some((po, pm)) = *prev_mansion {
        if po + 1 == ord && (pm + 1) % 28 != m1 {
          ctx.violation("mansion", fmt_ymd(d), format!("mansion {} follows {} on the previous day (model: advances by one)", m1, pm), rp.clone());
        }
      }
      *prev_mansion = Some((ord, m1));
      if d.0 >= 2 && (!stars.contains(&ns1) || !stars.contains(&ns2) || ns1 != ns2) {
        ctx.violation("day_nine_star", fmt_ymd(d), format!("day nine star index {} (sexagenary-day route) / {} (lunar-day route; the two routes must agree), model accepts {:?} (ascending from 一白 on the Jiazi day nearest the winter solstice, descending from 九紫 on the one nearest the summer solstice)", ns1, ns2, stars), rp.clone());
      }
      if stars.len() > 1 {
        loc.oc("day nine star: both alignments accepted");
      }
      let mabs = lm.abs() as usize;
      let want_six = (mabs + lday - 2) % 6;
      if six != want_six {
        ctx.violation("six_star", fmt_ymd(d), format!("six-day star index {} on lunar {}/{}; model (|month| + day - 2) mod 6 = {}", six, lm, lday, want_six), rp.clone());
      }
      if lm < 0 {
        loc.nontrivial += 1;
        loc.oc("leap-month day");
      }
      if phase != lday - 1 {
        ctx.violation("phase", fmt_ymd(d), format!("moon phase index {} on lunar day {}", phase, lday), rp.clone());
      }
      if mren != (mabs - 1) % 6 || ren != (mabs - 1 + lday - 1) % 6 {
        ctx.violation("minor_ren", fmt_ymd(d), format!("minor Ren month {} day {} on lunar {}/{}; model {} / {}", mren, ren, lm, lday, (mabs - 1) % 6, (mabs - 1 + lday - 1) % 6), rp.clone());
      }
    }
    Err(m) => ctx.violation("duty", fmt_ymd(d), format!("panics: {}", m), rp),
  }
  if d.1 == 1 && d.2 == 1 {
    loc.traces += 1;
  }
}

fn check_hours(ctx: &Ctx, civ: &Civil, tm: &Terms, ord: usize, loc: &mut Local) {
  let d = civ.date(ord);
  let y = d.0 as isize;
  if y < 2 || y > 9998 {
    return;
  }
  let dz1 = tm.get(y, 0).day as usize;
  let xz = tm.get(y, 12).day as usize;
  let dz2 = tm.get(y + 1, 0).day as usize;
  let asc = (ord >= dz1 && ord < xz) || ord >= dz2;
  let dp = day_pillar(civ.jdn(ord));
  for h in 0..24usize {
    let inst = ord as i64 * 86400 + h as i64 * 3600 + 600;
    let hb = ((h + 1) / 2) % 12;
    loc.states += 1;
    loc.transitions += 4;
    // day the hour belongs to: from 23:00 the next day (both readings accepted for the nine star, see DESIGN)
    let day_branches: Vec<usize> = if h == 23 { vec![(dp % 12) as usize, ((dp + 1) % 12) as usize] } else { vec![(dp % 12) as usize] };
    let accept: Vec<i64> = day_branches.iter().map(|b| (hour_star_start(BRANCHES[*b], asc) + if asc { hb as i64 } else { -(hb as i64) }).rem_euclid(9)).collect();
    let rolled_branch = if h == 23 { ((dp + 1) % 12) as usize } else { (dp % 12) as usize };
    let want_twelve = twelve_star(rolled_branch, hb);
    let r = guard(|| {
      let st = mk_time(civ, inst);
      let lh = st.get_lunar_hour();
      let sh = st.get_sixty_cycle_hour();
      let base = (lh.get_nine_star().get_index() as i64, sh.get_nine_star().get_index() as i64, lh.get_twelve_star().get_index(), sh.get_twelve_star().get_index(), lh.get_minor_ren().get_index(), lh.get_lunar_day().get_minor_ren().get_index(), lh.get_index_in_day());
      // history + chain: the lunar hour whose views were just resolved, stepped inside the same day, must carry the
      // stars of the hour it now denotes (= the hour built afresh from the clock two / four hours on)
      let mut stepped: Vec<(isize, [usize; 5], [usize; 5])> = Vec::new();
      for n in [1isize, 2, -1] {
        let hh = h as isize + 2 * n;
        if hh < 1 || hh > 22 {
          continue;
        }
        let view = |x: &tyme4rs::tyme::lunar::LunarHour| {
          let xs = x.get_sixty_cycle_hour();
          [x.get_nine_star().get_index(), xs.get_nine_star().get_index(), x.get_twelve_star().get_index(), xs.get_twelve_star().get_index(), x.get_minor_ren().get_index()]
        };
        let s = lh.next(n);
        let fresh = mk_time(civ, inst + 7200 * n as i64).get_lunar_hour();
        stepped.push((n, view(&s), view(&fresh)));
      }
      (base, stepped)
    });
    let r = r.map(|(base, stepped)| {
      for (n, got, want) in stepped {
        loc.transitions += 1;
        if got != want {
          ctx.violation("hour_stepped", format!("{} next({})", fmt_inst(civ, inst), n), format!("the lunar hour (views already resolved) stepped by {} double-hours has [nine star, nine star via sexagenary hour, twelve star, twelve star via sexagenary hour, minor Ren] = {:?}; the hour built afresh from the clock: {:?}", n, got, want), vec!["hours".to_string(), ord.to_string()]);
        }
      }
      base
    });
    let rp = vec!["hours".to_string(), ord.to_string()];
    match r {
      Ok((n1, n2, t1, t2, ren, dren, idx)) => {
        if !accept.contains(&n1) || !accept.contains(&n2) {
          ctx.violation("hour_nine_star", fmt_inst(civ, inst), format!("hour nine star index {} (lunar hour) / {} (sexagenary hour); model accepts {:?}: {} run, day branch {}, hour branch {}", n1, n2, accept, if asc { "ascending (after the winter solstice)" } else { "descending (after the summer solstice)" }, BRANCHES[(dp % 12) as usize], BRANCHES[hb]), rp.clone());
        }
        if t1 != want_twelve || t2 != want_twelve {
          ctx.violation("hour_twelve_star", fmt_inst(civ, inst), format!("hour twelve-star index {} / {}, model {} (青龙 on {} for a {} day)", t1, t2, want_twelve, green_dragon_start(BRANCHES[rolled_branch]), BRANCHES[rolled_branch]), rp.clone());
        }
        if ren != (dren + idx) % 6 {
          ctx.violation("minor_ren", fmt_inst(civ, inst), format!("hour minor Ren {} but day {} + hour index {}", ren, dren, idx), rp.clone());
        }
      }
      Err(m) => ctx.violation("hour_nine_star", fmt_inst(civ, inst), format!("panics: {}", m), rp),
    }
  }
}

fn check_year(ctx: &Ctx, y: isize, loc: &mut Local) {
  loc.states += 1;
  loc.transitions += 2;
  // 上元甲子 1864 = 一白, descending one per year
  let want = (1864 - y as i64).rem_euclid(9);
  let r = guard(|| (LunarYear::from_year(y).get_nine_star().get_index() as i64, SixtyCycleYear::from_year(y).get_nine_star().get_index() as i64));
  let rp = vec!["year".to_string(), y.to_string()];
  match r {
    Ok((a, b)) => {
      if a != want || b != want {
        ctx.violation("year_nine_star", format!("{:05}", y), format!("year star index {} (lunar year) / {} (sexagenary year), model (1864 - y) mod 9 = {}", a, b, want), rp);
      }
    }
    Err(m) => ctx.violation("year_nine_star", format!("{:05}", y), format!("panics: {}", m), rp),
  }
  // months of the sexagenary year
  if y >= -1 {
    let yb = BRANCHES[(year_pillar(y as i64) % 12) as usize];
    for k in 0..12i64 {
      loc.transitions += 1;
      let want = (month_star_start(yb) - k).rem_euclid(9);
      let r = guard(|| SixtyCycleMonth::from_index(y, k as isize).get_nine_star().get_index() as i64);
      match r {
        Ok(a) => {
          if a != want {
            ctx.violation("month_nine_star", format!("{:05}/{:02}", y, k), format!("month star index {}, model {} (year branch {}: 寅 month starts at {}, descending)", a, want, yb, month_star_start(yb) + 1), vec!["year".into(), y.to_string()]);
          }
        }
        Err(m) => ctx.violation("month_nine_star", format!("{:05}/{:02}", y, k), format!("panics: {}", m), vec!["year".into(), y.to_string()]),
      }
      // the same month reached by stepping from its neighbours (one month later / earlier, one year earlier)
      if y >= 1 && y <= 9997 {
        for n in [-1i64, 1, 12] {
          loc.transitions += 1;
          let src = 12 * y as i64 + k - n;
          let r = guard(|| SixtyCycleMonth::from_index(src.div_euclid(12) as isize, src.rem_euclid(12) as isize).next(n as isize).get_nine_star().get_index() as i64);
          if r != Ok(want) {
            ctx.violation("month_nine_star", format!("{:05}/{:02} via next({:+})", y, k, n), format!("month {}/{} stepped by {} has star index {:?}, model {} for month {}/{}", src.div_euclid(12), src.rem_euclid(12), n, r, want, y, k), vec!["year".into(), y.to_string()]);
          }
        }
      }
    }
  }
}

fn check_lunar_month(ctx: &Ctx, l: &Lun, loc: &mut Local) {
  if !l.ok {
    return;
  }
  loc.transitions += 1;
  let yb = BRANCHES[(year_pillar(l.y as i64) % 12) as usize];
  // a lunar month's pillar branch is 寅 + its index in the year (leap months shift the later ones; the 13th month is 寅 again):
  // the star is a function of the (year branch, month branch) pair
  let want = (month_star_start(yb) - (l.idx as i64 % 12)).rem_euclid(9);
  let r = guard(|| LunarMonth::from_ym(l.y as isize, l.m as isize).get_nine_star().get_index() as i64);
  match r {
    Ok(a) => {
      if a != want {
        ctx.violation("month_nine_star", l.key(), format!("lunar month star index {}, model {} (year branch {}, month index {})", a, want, yb, l.idx), vec!["lmonth".into(), l.y.to_string(), l.m.to_string()]);
      }
    }
    Err(m) => ctx.violation("month_nine_star", l.key(), format!("panics: {}", m), vec!["lmonth".into(), l.y.to_string(), l.m.to_string()]),
  }
}

pub fn run(ctx: &Ctx) {
  let civ = Civil::build();
  let tm = Terms::build(ctx, &civ);
  ctx.assume("month branch from the library's Jie days; day pillar (JDN+49) mod 60; 青龙 start branches, month-star groups and hour-star groups typed by name from the classical tables; the 28-mansion series is anchored by 'luminary = weekday' and 'advances one per day' (the absolute phase among the 4 weekday-compatible ones is pinned by the repository's own tests); where the two classical alignments of a day-star run disagree (anchor spacing not 180 days) either alignment is accepted; at 23:00 the hour nine star may use either day's branch (the two hour views of the library differ there by convention); the day nine star of civil year 1 needs the winter solstice of 1 BC and is outside the claim");
  let years = years_for(ctx, 1, 9998);
  let mut n = 0u64;
  let mut done = true;
  let mut runs: Vec<(usize, usize)> = Vec::new();
  for &y in &years {
    let (a, b) = civ.year_range(y as i32, y as i32);
    n += (b - a) as u64;
    if let Some(last) = runs.last_mut() {
      if last.1 == a {
        last.1 = b;
        continue;
      }
    }
    runs.push((a, b));
  }
  for (a, b) in runs {
    done &= par_chunks(ctx, a, b, 512, |x, y, l| {
      let mut prev = None;
      for o in x.saturating_sub(1)..y {
        if o < x {
          // warm the mansion continuity check across chunk borders
          let mut scratch = Local::default();
          let c2 = Ctx::new("scratch", ctx.tier, 0);
          check_day(&c2, &civ, &tm, o, &mut prev, &mut scratch);
          continue;
        }
        check_day(ctx, &civ, &tm, o, &mut prev, l);
      }
    });
  }
  ctx.subspace(&format!("day series on the civil dates of {} years ({} dates): duty, twelve spirits, 28 mansions + luminary, day nine star, six-day star, moon phase, minor Ren (both routes)", years.len(), n), done, n);
  if ctx.quick() {
    // sparse whole-range sub-space: every 37th civil date of 0001-02-10..9998-12-31 (37 is coprime to 7, 9, 12, 28 and 60, so
    // every residue of every cycle is met), and every hour of every 37 x 41-th of them
    let lo = civ.ord(1, 2, 10).unwrap();
    let hi = civ.ord(9998, 12, 31).unwrap();
    let cnt = (hi - lo) / 37;
    let done = par_chunks(ctx, 0, cnt, 256, |x, y, l| {
      for k in x..y {
        let mut prev = None;
        check_day(ctx, &civ, &tm, lo + 37 * k, &mut prev, l);
        if k % 41 == 0 {
          check_hours(ctx, &civ, &tm, lo + 37 * k, l);
        }
      }
    });
    ctx.subspace(&format!("every 37th civil date of 0001-02-10..9998-12-31 ({} dates): the day series; all 24 hours of every 41st of them", cnt), done, cnt as u64);
  }
  // hours: 12 double-hours (all 24 clock hours) of the days of W'
  let mut hdays: Vec<usize> = Vec::new();
  let starts: Vec<(i32, u8, u8)> = if ctx.quick() { vec![(2023, 6, 1), (2024, 12, 1)] } else { vec![(1582, 1, 1), (2020, 1, 1), (2023, 1, 1), (9990, 1, 1), (100, 1, 1)] };
  for s in starts {
    let o = civ.ord(s.0, s.1, s.2).unwrap();
    hdays.extend(o..o + if ctx.quick() { 90 } else { 400 });
  }
  // Decembers (both sides of the winter solstice) of several eras: the solstice day drifts from Dec 22 to Dec 11 (1582) and Dec 19 (9999)
  for y in [500, 1000, 1500, 4000, 7000, 9990] {
    if ctx.quick() && y != 1500 && y != 9990 {
      continue;
    }
    let o = civ.ord(y, 12, 1).unwrap();
    hdays.extend(o..o + 31);
  }
  let done = par_chunks(ctx, 0, hdays.len(), 8, |a, b, l| {
    for i in a..b {
      check_hours(ctx, &civ, &tm, hdays[i], l);
    }
  });
  ctx.subspace(&format!("hour series: all 24 clock hours of {} days: hour nine star, hour twelve spirits, hour minor Ren", hdays.len()), done, hdays.len() as u64 * 24);
  let done = par_chunks(ctx, 0, 10001, 50, |a, b, l| {
    for y in a..b {
      check_year(ctx, y as isize - 1, l);
    }
  });
  ctx.subspace("years -1..9999: year nine star (both year types) and the 12 month stars of every sexagenary year", done, 10001);
  let t = LunTable::build(ctx, 0, 9999);
  let done = par_chunks(ctx, 0, t.l.len(), 512, |a, b, l| {
    for i in a..b {
      check_lunar_month(ctx, &t.l[i], l);
    }
  });
  ctx.subspace("every lunar month of years 0..9999: month nine star from (year branch, month index)", done, t.l.len() as u64);
  if ctx.primary() {
    let o = civ.ord(2020, 5, 23).unwrap();
    let r = guard(|| mk((2020, 5, 23)).get_lunar_day().get_six_star().get_index());
    ctx.sample(format!("2020-05-23 (lunar leap 4th month day 1): impl six-day star {:?}; model (4 + 1 - 2) mod 6 = 3; day star accept {:?}", r, day_star_accept(&civ, &tm, o)));
  }
}

pub fn replay(ctx: &Ctx, args: &[String]) {
  let civ = Civil::build();
  let n: Vec<i64> = args[1..].iter().filter_map(|a| a.parse().ok()).collect();
  let mut l = Local::default();
  match args[0].as_str() {
    "day" => {
      let y = n[0] as usize;
      let tm = Terms::build_range(ctx, &civ, y.saturating_sub(2), (y + 2).min(10000));
      let o = civ.ord(n[0] as i32, n[1] as u8, n[2] as u8).unwrap();
      let mut prev = None;
      let c2 = Ctx::new("scratch", ctx.tier, 0);
      check_day(&c2, &civ, &tm, o - 1, &mut prev, &mut Local::default());
      println!("replay C17 day {}: day-star accept set {:?}", fmt_ymd(civ.date(o)), day_star_accept(&civ, &tm, o));
      check_day(ctx, &civ, &tm, o, &mut prev, &mut l);
    }
    "hours" => {
      let y = civ.date(n[0] as usize).0 as usize;
      let tm = Terms::build_range(ctx, &civ, y.saturating_sub(1), (y + 2).min(10000));
      check_hours(ctx, &civ, &tm, n[0] as usize, &mut l);
    }
    "year" => check_year(ctx, n[0] as isize, &mut l),
    _ => {
      let t = LunTable::build(ctx, n[0] as isize, n[0] as isize);
      let p = t.pos(n[0] as isize, n[1] as isize).unwrap();
      check_lunar_month(ctx, &t.l[p], &mut l);
    }
  }
  ctx.add(&l);
}
