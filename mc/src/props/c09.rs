//! C09 Hour pillar, 23:00 day roll-over, eight characters and the inverse search.
//! (a) all (day pillar, hour) combinations; (b) every hour of every date of the windows: composition of the
//! four pillars; (c) inverse search on every double-hour of fully enumerated day windows x year ranges.

use crate::engine::*;
use crate::props::c08::ym_of_g;
use crate::props::c12::{fmt_inst, inst_of, mk_time};
use crate::refmodel::civil::*;
use crate::refmodel::pillar::*;
use crate::refmodel::terms::*;
use tyme4rs::tyme::eightchar::provider::{EightCharProvider, LunarSect2EightCharProvider};
use tyme4rs::tyme::{Culture, Tyme};

/// model eight characters of an instant (default provider: day rolls at 23:00)
fn model_chars(civ: &Civil, tm: &Terms, inst: i64, roll: bool) -> Option<[String; 4]> {
  let g = tm.g_of_inst(inst)?;
  let (y, k, _) = ym_of_g(g);
  if y < 1 {
    return None;
  }
  let o = inst / 86400;
  let h = (inst % 86400 / 3600) as usize;
  let dp = day_pillar(civ.jdn(o as usize));
  // the hour pillar always takes the stem of the day the (late) Zi hour belongs to
  let hour_day = if h >= 23 { dp + 1 } else { dp };
  let shown_day = if h >= 23 && roll { dp + 1 } else { dp };
  Some([pillar_name(year_pillar(y)), month_pillar(y, k), pillar_name(shown_day), hour_pillar((hour_day.rem_euclid(60) % 10) as usize, h)])
}

fn check_hour(ctx: &Ctx, civ: &Civil, tm: &Terms, inst: i64, loc: &mut Local) {
  let want = match model_chars(civ, tm, inst, true) {
    Some(w) => w,
    None => return,
  };
  let want2 = model_chars(civ, tm, inst, false).unwrap();
  let h = (inst % 86400 / 3600) as usize;
  loc.states += 1;
  loc.transitions += 4;
  if h == 23 || h == 0 {
    loc.nontrivial += 1;
  }
  // every fifth hour: the deprecated LunarHour getters and the LunarHour -> SixtyCycleHour route must report the same four characters
  if (inst / 3600) % 5 == 0 {
    loc.transitions += 1;
    #[allow(deprecated)]
    let r = guard(|| {
      let lh = mk_time(civ, inst).get_lunar_hour();
      let sh = lh.get_sixty_cycle_hour();
      (
        [lh.get_year_sixty_cycle().get_name(), lh.get_month_sixty_cycle().get_name(), lh.get_day_sixty_cycle().get_name(), lh.get_sixty_cycle().get_name()],
        [sh.get_year().get_name(), sh.get_month().get_name(), sh.get_day().get_name(), sh.get_sixty_cycle().get_name()],
      )
    });
    let key = format!("{} LunarHour routes", fmt_inst(civ, inst));
    match r {
      Ok((a, b)) => {
        if a != want || b != want {
          ctx.violation("route", key, format!("LunarHour::get_year/month/day_sixty_cycle + get_sixty_cycle = {:?}; LunarHour::get_sixty_cycle_hour = {:?}; model {:?}", a, b, want), vec!["hour".into(), inst.to_string()]);
        }
      }
      Err(m) => ctx.violation("route", key, format!("panics: {}", m), vec!["hour".into(), inst.to_string()]),
    }
  }
  let r = guard(|| {
    let st = mk_time(civ, inst);
    let lh = st.get_lunar_hour();
    let sh = st.get_sixty_cycle_hour();
    let ec = lh.get_eight_char();
    let ec2 = LunarSect2EightCharProvider::new().get_eight_char(lh.clone());
    (
      lh.get_sixty_cycle().get_name(),
      lh.get_index_in_day(),
      sh.get_sixty_cycle().get_name(),
      sh.get_index_in_day(),
      sh.get_day().get_name(),
      [ec.get_year().get_name(), ec.get_month().get_name(), ec.get_day().get_name(), ec.get_hour().get_name()],
      [ec2.get_year().get_name(), ec2.get_month().get_name(), ec2.get_day().get_name(), ec2.get_hour().get_name()],
      sh.get_eight_char().get_name(),
      lh.get_name(),
    )
  });
  let key = fmt_inst(civ, inst);
  let rp = vec!["hour".to_string(), inst.to_string()];
  // does the start state itself disagree with the model? (then whatever is reached from it is reported under its key)
  let mut start_bad = false;
  match r {
    Ok((lp, li, sp, si, sday, ec, ec2, secn, lname)) => {
      let b = ((h + 1) / 2) % 12;
      start_bad = lp != want[3] || sp != want[3] || sday != want[2] || ec != want || secn != want.join(" ") || ec2 != want2;
      if lp != want[3] || sp != want[3] || li != (h + 1) / 2 || si != b || lname != format!("{}时", BRANCHES[b]) {
        ctx.violation("hour_pillar", key.clone(), format!("LunarHour pillar {} index {} name {}, SixtyCycleHour pillar {} index {}; model pillar {} (branch floor((h+1)/2) mod 12 = {}, Five Rats from the day the hour belongs to)", lp, li, lname, sp, si, want[3], b), rp.clone());
      }
      if sday != want[2] {
        ctx.violation("day_roll", key.clone(), format!("SixtyCycleHour::get_day = {} model {} (next day's pillar from 23:00)", sday, want[2]), rp.clone());
      }
      if ec != want || secn != want.join(" ") {
        ctx.violation("eight_char", key.clone(), format!("get_eight_char = {:?} (SixtyCycleHour: {}), model = {:?}", ec, secn, want), rp.clone());
      }
      if ec2 != want2 {
        ctx.violation("eight_char_sect2", key.clone(), format!("LunarSect2 provider = {:?}, model (no day roll) = {:?}", ec2, want2), rp.clone());
      }
      // the (deprecated) day officer read off the eight characters: (day branch - month branch) mod 12
      if (inst / 3600) % 7 == 0 {
        #[allow(deprecated)]
        let d = guard(|| mk_time(civ, inst).get_lunar_hour().get_eight_char().get_duty().get_index());
        let wd = (pillar_idx(&want[2]).unwrap() as i64 % 12 - pillar_idx(&want[1]).unwrap() as i64 % 12).rem_euclid(12) as usize;
        if d != Ok(wd) {
          ctx.violation("route", format!("{} EightChar::get_duty", key), format!("EightChar::get_duty index {:?}; model (day branch - month branch) mod 12 = {} for [{}]", d, wd, want.join(" ")), rp);
        }
      }
    }
    Err(m) => {
      start_bad = true;
      ctx.violation("eight_char", key, format!("panics: {}", m), rp)
    }
  }
  // a LunarHour whose lazy views are already filled, stepped by n double-hours, must report the characters of the new instant
  if h % 2 == 1 && inst % 86400 % 3600 < 1800 && (inst / 86400) % 4 == 0 {
    for n in [1i64, -1, 5] {
      let t = inst + 7200 * n;
      let wantn = match model_chars(civ, tm, t, true) {
        Some(w) => w,
        None => continue,
      };
      loc.transitions += 1;
      let r = guard(|| {
        let lh = mk_time(civ, inst).get_lunar_hour();
        let _ = lh.get_sixty_cycle_hour();
        let _ = lh.get_twelve_star();
        let nx = lh.next(n as isize);
        let ec = nx.get_eight_char();
        (ec.get_name(), nx.get_sixty_cycle_hour().get_eight_char().get_name(), nx.get_sixty_cycle().get_name())
      });
      // keyed by the instant whose characters are reported (so that the known reform-era dates are recognised)
      // (a step that starts from a state already reported as wrong is keyed by that start state instead)
      let key = if start_bad { format!("{} stepped by next({:+}) to {}", fmt_inst(civ, inst), n, fmt_inst(civ, t)) } else { format!("{} reached by next({:+}) from {}", fmt_inst(civ, t), n, fmt_inst(civ, inst)) };
      match r {
        Ok((a, b, c)) => {
          if a != wantn.join(" ") || b != wantn.join(" ") || c != wantn[3] {
            ctx.violation("eight_char", key, format!("after get_sixty_cycle_hour(), next({}) reports [{}] / [{}] / hour {}; model for the new instant {:?}", n, a, b, c, wantn), vec!["hour".into(), inst.to_string()]);
          }
        }
        Err(m) => ctx.violation("eight_char", key, format!("panics: {}", m), vec!["hour".into(), inst.to_string()]),
      }
    }
  }
}

/// double-hour b of civil day `ord`: [start, end] instants (b = 0 starts 23:00 of the previous day)
fn double_hour(ord: usize, b: usize) -> (i64, i64) {
  let base = ord as i64 * 86400;
  if b == 0 {
    (base - 3600, base + 3599)
  } else {
    (base + (2 * b as i64 - 1) * 3600, base + (2 * b as i64 + 1) * 3600 - 1)
  }
}

fn check_inverse(ctx: &Ctx, civ: &Civil, tm: &Terms, ord: usize, b: usize, ranges: &[(isize, isize)], loc: &mut Local) {
  let (s, e) = double_hour(ord, b);
  if s < 0 {
    return;
  }
  // skip double-hours that contain a Jie instant (only a slice of them has the characters)
  let gs = match (tm.g_of_inst(s), tm.g_of_inst(e)) {
    (Some(a), Some(z)) => (a, z),
    _ => return,
  };
  let jie_inside = (gs.0 + 1..=gs.1).any(|g| g % 2 == 1);
  if jie_inside {
    loc.oc("double-hour contains a Jie instant (skipped)");
    return;
  }
  let probe = ord as i64 * 86400 + (2 * b as i64) * 3600 + 1800;
  let y = civ.date(ord).0 as isize;
  // soundness for characters that never occur: real year/month/hour pillars with another day pillar of the same parity
  // (the hour stem no longer follows from the day stem). Whatever is returned must still have exactly the searched characters.
  if b % 4 <= 1 {
    if let Some(w) = model_chars(civ, tm, probe, true) {
      // -1: 'late Zi hour written with the current day's pillar' -- the hour stem belongs to the next day's stem
      for shift in [-1i64, 1, 2, 10, 30] {
        let di = pillar_idx(&w[2]).unwrap() as i64;
        let fake = pillar_name(di + shift);
        loc.transitions += 1;
        let r = guard(|| {
          let ec = tyme4rs::tyme::eightchar::EightChar::new(&w[0], &w[1], &fake, &w[3]);
          let l = ec.get_solar_times((y - 60).max(1), (y + 60).min(9999));
          l.iter().map(|t| (inst_of(civ, t), t.get_lunar_hour().get_eight_char().get_name())).collect::<Vec<_>>()
        });
        let name = format!("{} {} {} {}", w[0], w[1], fake, w[3]);
        let key = format!("{} fake-day+{} range {}..{}", fmt_inst(civ, probe), shift, (y - 60).max(1), (y + 60).min(9999));
        match r {
          Ok(out) => {
            for (t, back) in out {
              if back != name {
                ctx.violation("inverse_sound", key.clone(), format!("search for [{}] returned {} whose eight characters are [{}]", name, t.map(|t| fmt_inst(civ, t)).unwrap_or("?".into()), back), vec!["inv".into(), ord.to_string(), b.to_string(), "1".into(), "1".into()]);
              }
            }
          }
          Err(m) => ctx.violation("inverse_sound", key, format!("panics: {}", m), vec!["inv".into(), ord.to_string(), b.to_string(), "1".into(), "1".into()]),
        }
      }
    }
  }
  let want = match model_chars(civ, tm, probe, true) {
    Some(w) => w,
    None => return,
  };
  loc.states += 1;
  for &(ka, kb) in ranges {
    let ys = (y - 60 * ka).max(1);
    let ye = (y + 60 * kb).min(9999);
    loc.transitions += 1;
    let r = guard(|| {
      let ec = mk_time(civ, probe).get_lunar_hour().get_eight_char();
      let l = ec.get_solar_times(ys, ye);
      let mut out = Vec::new();
      for t in l.iter() {
        let back = t.get_lunar_hour().get_eight_char().get_name();
        out.push((inst_of(civ, t), back));
      }
      (ec.get_name(), out)
    });
    let key = format!("{} range {}..{}", fmt_inst(civ, probe), ys, ye);
    let rp = vec!["inv".to_string(), ord.to_string(), b.to_string(), ka.to_string(), kb.to_string()];
    match r {
      Ok((name, out)) => {
        if name != want.join(" ") {
          continue; // composition is judged by check_hour
        }
        let mut found = false;
        for (t, back) in &out {
          match t {
            Some(t) => {
              if *back != name {
                ctx.violation("inverse_sound", key.clone(), format!("search for [{}] returned {} whose eight characters are [{}]", name, fmt_inst(civ, *t), back), rp.clone());
              }
              if *t >= s && *t <= e {
                found = true;
              }
            }
            None => ctx.violation("inverse_sound", key.clone(), "returned an invalid instant".into(), rp.clone()),
          }
        }
        if !found {
          ctx.violation(
            "inverse_complete",
            key,
            format!("[{}] holds throughout the double-hour {} .. {} (no Jie inside) but get_solar_times({}, {}) returned {} instant(s), none inside it: {:?}", name, fmt_inst(civ, s), fmt_inst(civ, e), ys, ye, out.len(), out.iter().take(4).map(|(t, _)| t.map(|t| fmt_inst(civ, t))).collect::<Vec<_>>()),
            rp,
          );
        } else {
          loc.oc("inverse search found the double-hour");
        }
      }
      Err(m) => ctx.violation("inverse_complete", key, format!("panics: {}", m), rp),
    }
  }
}

/// the hour slots listed by the day objects of a civil day carry the eight characters of their own instants
fn check_day_lists(ctx: &Ctx, civ: &Civil, tm: &Terms, ord: usize, loc: &mut Local) {
  // (not before the first Jie of year 1: the governing term of those instants lies in 1 BC and the library refuses them)
  if ord < 2 || ord + 2 > civ.len() || !tm.g_of_inst(ord as i64 * 86400 - 3600).map(|g| g >= 25).unwrap_or(false) {
    return;
  }
  let d = civ.date(ord);
  loc.transitions += 2;
  let r = guard(|| {
    let sd = crate::props::c01::mk(d);
    let a: Vec<(Option<i64>, String)> = sd.get_sixty_cycle_day().get_hours().iter().map(|h| (inst_of(civ, &h.get_solar_time()), h.get_eight_char().get_name())).collect();
    let b: Vec<(Option<i64>, String)> = sd.get_lunar_day().get_hours().iter().map(|h| (inst_of(civ, &h.get_solar_time()), h.get_eight_char().get_name())).collect();
    (a, b)
  });
  let key = format!("{} hour lists", fmt_inst(civ, ord as i64 * 86400));
  match r {
    Ok((a, b)) => {
      for (which, list) in [("SixtyCycleDay::get_hours", a), ("LunarDay::get_hours", b)] {
        for (k, (t, name)) in list.iter().enumerate() {
          if let Some(t) = t {
            if let Some(w) = model_chars(civ, tm, *t, true) {
              if *name != w.join(" ") {
                ctx.violation("route", format!("{} {}[{}]", key, which, k), format!("{}[{}] at {} has eight characters [{}]; model [{}]", which, k, fmt_inst(civ, *t), name, w.join(" ")), vec!["daylists".into(), ord.to_string()]);
              }
            }
          }
        }
      }
    }
    Err(m) => ctx.violation("route", key, format!("hour lists panic: {}", m), vec!["daylists".into(), ord.to_string()]),
  }
}

/// the late Zi hour of 31 December of year y (23:00..00:59) searched with a range that ends in y: the characters hold
/// throughout the double-hour, whose first half lies in the range, so an instant inside it must be returned
fn check_year_end(ctx: &Ctx, civ: &Civil, tm: &Terms, y: i32, loc: &mut Local) {
  let ord = match civ.ord(y, 12, 31) {
    Some(o) => o,
    None => return,
  };
  let (s, e) = (ord as i64 * 86400 + 82800, ord as i64 * 86400 + 86400 + 3599);
  let probe = ord as i64 * 86400 + 84600; // 23:30:00
  let gs = match (tm.g_of_inst(s), tm.g_of_inst(e)) {
    (Some(a), Some(z)) => (a, z),
    _ => return,
  };
  if (gs.0 + 1..=gs.1).any(|g| g % 2 == 1) || model_chars(civ, tm, probe, true).is_none() {
    return;
  }
  for ka in [0isize, 1] {
    let ys = (y as isize - 60 * ka).max(1);
    loc.transitions += 1;
    let r = guard(|| {
      let ec = mk_time(civ, probe).get_lunar_hour().get_eight_char();
      ec.get_solar_times(ys, y as isize).iter().map(|t| inst_of(civ, t)).collect::<Vec<_>>()
    });
    let key = format!("{} range {}..{}", fmt_inst(civ, probe), ys, y);
    match r {
      Ok(out) => {
        if !out.iter().any(|t| matches!(t, Some(t) if *t >= s && *t <= e)) {
          ctx.violation("inverse_complete", key, format!("the characters of {} hold from {} to {} (no Jie inside); get_solar_times({}, {}) returned {} instant(s), none inside that double-hour", fmt_inst(civ, probe), fmt_inst(civ, s), fmt_inst(civ, e), ys, y, out.len()), vec!["yearend".into(), y.to_string()]);
        }
      }
      Err(m) => ctx.violation("inverse_complete", key, format!("panics: {}", m), vec!["yearend".into(), y.to_string()]),
    }
  }
}

pub fn run(ctx: &Ctx) {
  let civ = Civil::build();
  let tm = Terms::build(ctx, &civ);
  ctx.assume("year/month pillars from the library's own Jie instants (term table); day pillar (JDN+49) mod 60; Five-Rats rule typed from the rhyme; late Zi hour (23:00-23:59) takes the next day's stem for the hour pillar under both providers, and the next day's pillar as day pillar under the default provider only");
  // (a) 60 consecutive days x 24 hours x {hh:00:00, hh:59:59}, in three eras
  let mut na = 0u64;
  for start in [(2023, 12, 1), (1582, 9, 20), (100, 3, 1)] {
    if !ctx.primary() {
      break;
    }
    let o0 = civ.ord(start.0, start.1, start.2).unwrap();
    let mut l = Local::default();
    for o in o0..o0 + 60 {
      for h in 0..24i64 {
        for s in [0i64, 3599] {
          check_hour(ctx, &civ, &tm, o as i64 * 86400 + h * 3600 + s, &mut l);
          na += 1;
        }
      }
    }
    ctx.add(&l);
  }
  ctx.subspace("(a) 3 eras x 60 consecutive days (all 60 day pillars) x 24 hours x {hh:00:00, hh:59:59}: hour pillar, index, day roll, both providers", true, na);
  // (b) every hour of every date of the windows
  let w = if ctx.quick() { vec![(2000isize, 2030isize), (1580, 1584), (1, 3), (9996, 9998)] } else { quick_windows(ctx.seed) };
  let mut done = true;
  let mut nb = 0u64;
  for &(ya, yb) in &w {
    let (a, b) = civ.year_range(ya as i32, (yb as i32).min(9998));
    nb += 24 * (b - a) as u64;
    done &= par_chunks(ctx, a, b, 256, |x, y, l| {
      for o in x..y {
        for h in 0..24i64 {
          check_hour(ctx, &civ, &tm, o as i64 * 86400 + h * 3600 + 1234, l);
        }
        if o % 3 == 0 || tm.g_of_day(o).map(|g| g % 2 == 1 && tm.t[g].day as usize == o).unwrap_or(false) {
          check_day_lists(ctx, &civ, &tm, o, l);
        }
        if civ.date(o).1 == 1 && civ.date(o).2 == 1 {
          l.traces += 1;
        }
      }
    });
  }
  ctx.subspace(&format!("(b) every hour (hh:20:34) of every date of the year windows {:?}: eight characters = year, month, day(+1 at 23h), hour pillars; on every third date and every Jie day the hour lists of both day objects", w), done, nb);
  // (b'') the whole range on a stride: every hour of every 577th (quick) / 7th (thorough) civil date of 0001-02-10..9998-12-31
  {
    let stride = if ctx.quick() { 577 } else { 7 };
    let lo = civ.ord(1, 2, 10).unwrap();
    let hi = civ.ord(9998, 12, 31).unwrap();
    let cnt = (hi - lo) / stride;
    let done = par_chunks(ctx, 0, cnt, 64, |x, y, l| {
      for k in x..y {
        for h in 0..24i64 {
          check_hour(ctx, &civ, &tm, (lo + stride * k) as i64 * 86400 + h * 3600 + 1234, l);
        }
      }
    });
    ctx.subspace(&format!("(b'') every hour (hh:20:34) of every {}th civil date of 0001-02-10..9998-12-31 ({} dates)", stride, cnt), done, cnt as u64 * 24);
  }
  // (b') the instants around every Jie of those years: composition must switch exactly at the Jie instant
  let mut jies: Vec<i64> = Vec::new();
  for &(ya, yb) in &w {
    for y in ya..=yb.min(9998) {
      for i in (1..24).step_by(2) {
        let t = tm.t[24 * y as usize + i].inst;
        if t != i64::MIN {
          jies.push(t);
        }
      }
    }
  }
  let done = par_chunks(ctx, 0, jies.len(), 8, |x, y, l| {
    for k in x..y {
      for dt in [-1i64, 0, 1, 60, 1800] {
        check_hour(ctx, &civ, &tm, jies[k] + dt, l);
      }
    }
  });
  ctx.subspace(&format!("(b') every Jie instant of those years ({}) at -1 s, +0, +1 s, +60 s, +30 min: eight characters switch exactly at the instant", jies.len()), done, jies.len() as u64 * 5);
  // (c) inverse search
  let eras: Vec<(i32, i32)> = if ctx.quick() { vec![(2024, 2024)] } else { vec![(30, 31), (1582, 1583), (2023, 2024), (5000, 5001), (9900, 9901)] };
  let ranges: Vec<(isize, isize)> = if ctx.quick() { vec![(0, 0), (1, 1)] } else { vec![(0, 0), (0, 1), (0, 2), (1, 0), (1, 1), (1, 2), (2, 0), (2, 1), (2, 2)] };
  let mut done = true;
  let mut nc = 0u64;
  // first 40 days of years in the Julian-drift and far-future eras (the month's Jie lies in the previous December there)
  let jan_years: Vec<i32> = if ctx.quick() { vec![1400, 9900] } else { vec![940, 1120, 1250, 1400, 1582, 9300, 9900] };
  let mut jan_days: Vec<usize> = Vec::new();
  for y in &jan_years {
    let o = civ.ord(*y, 1, 1).unwrap();
    jan_days.extend(o..o + 40);
  }
  nc += 12 * jan_days.len() as u64 * ranges.len() as u64;
  done &= par_chunks(ctx, 0, jan_days.len(), 4, |x, y, l| {
    for i in x..y {
      for bb in 0..12 {
        check_inverse(ctx, &civ, &tm, jan_days[i], bb, &ranges, l);
      }
    }
  });
  for &(ya, yb) in &eras {
    let (a, b) = civ.year_range(ya, yb);
    nc += 12 * (b - a) as u64 * ranges.len() as u64;
    done &= par_chunks(ctx, a, b, 8, |x, y, l| {
      for o in x..y {
        for bb in 0..12 {
          check_inverse(ctx, &civ, &tm, o, bb, &ranges, l);
        }
      }
    });
  }
  ctx.subspace(&format!("(c) inverse search: every double-hour of every day of years {:?} and of the first 40 days of 2 (quick) / 7 (thorough) years of the Julian-drift and far-future eras x year ranges [y-60k, y+60k'] for (k,k') in {:?}", eras, ranges), done, nc);
  // (c') the last double-hour of a year against a range ending in that year
  let yends: Vec<i32> = if ctx.quick() { vec![2, 1500, 1582, 2023, 2024, 9000] } else { (2..=9997).step_by(7).collect() };
  let done = par_chunks(ctx, 0, yends.len(), 4, |a, b, l| {
    for k in a..b {
      check_year_end(ctx, &civ, &tm, yends[k], l);
    }
  });
  ctx.subspace(&format!("(c') late Zi hour of 31 December of {} years searched with ranges [y, y] and [y-60, y] ending in that year", yends.len()), done, yends.len() as u64 * 2);
  for inst in [civ.ord(2023, 12, 31).unwrap() as i64 * 86400 + 23 * 3600 + 100, civ.ord(2024, 2, 4).unwrap() as i64 * 86400 + 16 * 3600 + 26 * 60 + 53] {
    let got = guard(|| mk_time(&civ, inst).get_lunar_hour().get_eight_char().get_name());
    ctx.sample(format!("{}: impl {:?}; model {:?}", fmt_inst(&civ, inst), got, model_chars(&civ, &tm, inst, true)));
  }
}

pub fn replay(ctx: &Ctx, args: &[String]) {
  let civ = Civil::build();
  let n: Vec<i64> = args[1..].iter().filter_map(|a| a.parse().ok()).collect();
  let mut l = Local::default();
  match args[0].as_str() {
    "daylists" => {
      let y = civ.date(n[0] as usize).0 as usize;
      let tm = Terms::build_range(ctx, &civ, y.saturating_sub(1), (y + 1).min(10000));
      check_day_lists(ctx, &civ, &tm, n[0] as usize, &mut l);
    }
    "yearend" => {
      let y = n[0] as usize;
      let tm = Terms::build_range(ctx, &civ, y.saturating_sub(1), (y + 2).min(10000));
      check_year_end(ctx, &civ, &tm, y as i32, &mut l);
    }
    "hour" => {
      let y = civ.date((n[0] / 86400) as usize).0 as usize;
      let tm = Terms::build_range(ctx, &civ, y.saturating_sub(1), (y + 1).min(10000));
      println!("replay C09 {}: model chars {:?}", fmt_inst(&civ, n[0]), model_chars(&civ, &tm, n[0], true));
      check_hour(ctx, &civ, &tm, n[0], &mut l);
    }
    _ => {
      let y = civ.date(n[0] as usize).0 as usize;
      let tm = Terms::build_range(ctx, &civ, y.saturating_sub(1), (y + 1).min(10000));
      println!("replay C09 inverse search: day {} double-hour {} range k={},{}", fmt_ymd(civ.date(n[0] as usize)), n[1], n[2], n[3]);
      check_inverse(ctx, &civ, &tm, n[0] as usize, n[1] as usize, &[(n[2] as isize, n[3] as isize)], &mut l);
    }
  }
  ctx.add(&l);
}

pub fn model_chars_pub(civ: &Civil, tm: &Terms, inst: i64) -> Option<[String; 4]> {
  model_chars(civ, tm, inst, true)
}
