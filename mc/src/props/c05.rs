//! C05 Solar terms and new moons sit at the true Sun/Moon longitudes.
//! Four bounded spaces, each enumerated completely: (1) every term / lunation of 1900-2150 (and lunations
//! of -1000..6000 in TT) against an independent low-precision theory typed from Meeus (ch. 25 Sun,
//! ch. 49 new moon, Espenak-Meeus delta-T); (2) calendar path vs precise path day agreement from 1961 on;
//! (3) inverse-solver residuals; (4) delta-T continuity.

use crate::engine::*;
use crate::refmodel::civil::*;
use crate::refmodel::lunar::*;
use crate::refmodel::terms::*;
use std::f64::consts::PI;
use tyme4rs::tyme::util::ShouXingUtil;

const J2000: f64 = 2451545.0;
const RAD: f64 = PI / 180.0;
const ARCSEC: f64 = PI / 180.0 / 3600.0;

/// Espenak-Meeus polynomial delta-T (seconds), years 1900..2150
fn delta_t_em(y: f64) -> f64 {
  if y < 1920.0 {
    let t = y - 1900.0;
    -2.79 + 1.494119 * t - 0.0598939 * t * t + 0.0061966 * t.powi(3) - 0.000197 * t.powi(4)
  } else if y < 1941.0 {
    let t = y - 1920.0;
    21.20 + 0.84493 * t - 0.076100 * t * t + 0.0020936 * t.powi(3)
  } else if y < 1961.0 {
    let t = y - 1950.0;
    29.07 + 0.407 * t - t * t / 233.0 + t.powi(3) / 2547.0
  } else if y < 1986.0 {
    let t = y - 1975.0;
    45.45 + 1.067 * t - t * t / 260.0 - t.powi(3) / 718.0
  } else if y < 2005.0 {
    let t = y - 2000.0;
    63.86 + 0.3345 * t - 0.060374 * t * t + 0.0017275 * t.powi(3) + 0.000651814 * t.powi(4) + 0.00002373599 * t.powi(5)
  } else if y < 2050.0 {
    let t = y - 2000.0;
    62.92 + 0.32217 * t + 0.005589 * t * t
  } else {
    let u = (y - 1820.0) / 100.0;
    -20.0 + 32.0 * u * u - 0.5628 * (2150.0 - y)
  }
}

/// Meeus ch. 25 (low accuracy): apparent geocentric longitude of the Sun in degrees for a JDE (TT)
fn sun_apparent_lon(jde: f64) -> f64 {
  let t = (jde - J2000) / 36525.0;
  let l0 = 280.46646 + 36000.76983 * t + 0.0003032 * t * t;
  let m = (357.52911 + 35999.05029 * t - 0.0001537 * t * t) * RAD;
  let c = (1.914602 - 0.004817 * t - 0.000014 * t * t) * m.sin() + (0.019993 - 0.000101 * t) * (2.0 * m).sin() + 0.000289 * (3.0 * m).sin();
  let om = (125.04 - 1934.136 * t) * RAD;
  (l0 + c - 0.00569 - 0.00478 * om.sin()).rem_euclid(360.0)
}

/// Meeus ch. 49: JDE (TT) of the new moon number k (k = 0: 2000 January 6)
fn new_moon_jde(k: f64) -> f64 {
  let t = k / 1236.85;
  let t2 = t * t;
  let t3 = t2 * t;
  let t4 = t3 * t;
  let jde = 2451550.09766 + 29.530588861 * k + 0.00015437 * t2 - 0.000000150 * t3 + 0.00000000073 * t4;
  let e = 1.0 - 0.002516 * t - 0.0000074 * t2;
  let m = (2.5534 + 29.10535670 * k - 0.0000014 * t2 - 0.00000011 * t3) * RAD;
  let mp = (201.5643 + 385.81693528 * k + 0.0107582 * t2 + 0.00001238 * t3 - 0.000000058 * t4) * RAD;
  let f = (160.7108 + 390.67050284 * k - 0.0016118 * t2 - 0.00000227 * t3 + 0.000000011 * t4) * RAD;
  let om = (124.7746 - 1.56375588 * k + 0.0020672 * t2 + 0.00000215 * t3) * RAD;
  let mut c = -0.40720 * mp.sin() + 0.17241 * e * m.sin() + 0.01608 * (2.0 * mp).sin() + 0.01039 * (2.0 * f).sin() + 0.00739 * e * (mp - m).sin() - 0.00514 * e * (mp + m).sin() + 0.00208 * e * e * (2.0 * m).sin() - 0.00111 * (mp - 2.0 * f).sin() - 0.00057 * (mp + 2.0 * f).sin() + 0.00056 * e * (2.0 * mp + m).sin() - 0.00042 * (3.0 * mp).sin() + 0.00042 * e * (m + 2.0 * f).sin() + 0.00038 * e * (m - 2.0 * f).sin() - 0.00024 * e * (2.0 * mp - m).sin() - 0.00017 * om.sin() - 0.00007 * (mp + 2.0 * m).sin() + 0.00004 * (2.0 * mp - 2.0 * f).sin() + 0.00004 * (3.0 * m).sin() + 0.00003 * (mp + m - 2.0 * f).sin() + 0.00003 * (2.0 * mp + 2.0 * f).sin() - 0.00003 * (mp + m + 2.0 * f).sin() + 0.00003 * (mp - m + 2.0 * f).sin() - 0.00002 * (mp - m - 2.0 * f).sin() - 0.00002 * (3.0 * mp + m).sin() + 0.00002 * (4.0 * mp).sin();
  let a: [(f64, f64, f64); 14] = [
    (299.77 + 0.107408 * k - 0.009173 * t2, 0.000325, 0.0),
    (251.88 + 0.016321 * k, 0.000165, 0.0),
    (251.83 + 26.651886 * k, 0.000164, 0.0),
    (349.42 + 36.412478 * k, 0.000126, 0.0),
    (84.66 + 18.206239 * k, 0.000110, 0.0),
    (141.74 + 53.303771 * k, 0.000062, 0.0),
    (207.14 + 2.453732 * k, 0.000060, 0.0),
    (154.84 + 7.306860 * k, 0.000056, 0.0),
    (34.52 + 27.261239 * k, 0.000047, 0.0),
    (207.19 + 0.121824 * k, 0.000042, 0.0),
    (291.34 + 1.844379 * k, 0.000040, 0.0),
    (161.72 + 24.198154 * k, 0.000037, 0.0),
    (239.56 + 25.513099 * k, 0.000035, 0.0),
    (331.55 + 3.592518 * k, 0.000023, 0.0),
  ];
  for (arg, coef, _) in a.iter() {
    c += coef * (arg * RAD).sin();
  }
  jde + c
}

fn gkey(g: usize) -> String {
  format!("{:05}-{:02}", g / 24, g % 24)
}

/// (1a) term instant vs Meeus apparent longitude
fn check_term_theory(ctx: &Ctx, tm: &Terms, g: usize, tol_min: f64, worst: &std::sync::Mutex<f64>, loc: &mut Local) {
  let t = tm.t[g];
  loc.states += 1;
  loc.transitions += 1;
  if t.jd.is_nan() {
    ctx.violation("term_vs_theory", gkey(g), "term instant not computable".into(), vec!["term".into(), g.to_string()]);
    return;
  }
  let y = (t.jd - J2000) / 365.2425 + 2000.0;
  let jde = t.jd - 8.0 / 24.0 + delta_t_em(y) / 86400.0;
  let target = (270.0 + 15.0 * (g % 24) as f64).rem_euclid(360.0);
  let lon = sun_apparent_lon(jde);
  let mut dl = (target - lon).rem_euclid(360.0);
  if dl > 180.0 {
    dl -= 360.0;
  }
  // the Sun moves 360 degrees in a tropical year
  let dmin = dl / (360.0 / 365.2422) * 1440.0;
  {
    let mut w = worst.lock().unwrap();
    if dmin.abs() > *w {
      *w = dmin.abs();
    }
  }
  if dmin.abs() > tol_min {
    ctx.violation("term_vs_theory", gkey(g), format!("term {} at JD {} (UTC+8): independent theory puts the Sun at {:.4} deg instead of {} deg, i.e. the instant is {:.1} min off (tolerance {} min = the theory's accuracy)", gkey(g), t.jd, lon, target, dmin, tol_min), vec!["term".into(), g.to_string()]);
  }
}

/// library's precise conjunction number k as JD in TT
fn lib_new_moon_tt(k: f64) -> f64 {
  ShouXingUtil::m_sa_lon_t(k * 2.0 * PI) * 36525.0 + J2000
}

fn check_moon_theory(ctx: &Ctx, k: i64, tol_min: f64, worst: &std::sync::Mutex<f64>, loc: &mut Local) {
  loc.states += 1;
  loc.transitions += 1;
  let r = guard(|| lib_new_moon_tt(k as f64));
  match r {
    Ok(jd) => {
      let d = (jd - new_moon_jde(k as f64)) * 1440.0;
      {
        let mut w = worst.lock().unwrap();
        if d.abs() > *w {
          *w = d.abs();
        }
      }
      if !(d.abs() <= tol_min) {
        ctx.violation("moon_vs_theory", format!("k={:+07}", k), format!("conjunction k={} at JDE {} (TT); independent new-moon theory gives {} : {:.2} min apart (tolerance {} min)", k, jd, new_moon_jde(k as f64), d, tol_min), vec!["moon".into(), k.to_string()]);
      }
    }
    Err(m) => ctx.violation("moon_vs_theory", format!("k={:+07}", k), format!("panics: {}", m), vec!["moon".into(), k.to_string()]),
  }
}

/// (2a) calendar-path term day == civil day (UTC+8) of the precise instant
fn check_term_day(ctx: &Ctx, tm: &Terms, g: usize, loc: &mut Local) {
  let t = tm.t[g];
  loc.states += 1;
  loc.transitions += 1;
  if t.jd.is_nan() || t.cursory == i64::MIN {
    ctx.violation("term_day", gkey(g), "not computable".into(), vec!["term".into(), g.to_string()]);
    return;
  }
  let precise_day = (t.jd + 0.5).floor() as i64;
  let frac = (t.jd + 0.5).rem_euclid(1.0) * 86400.0;
  if frac < 1200.0 || frac > 86400.0 - 1200.0 {
    loc.nontrivial += 1;
    loc.oc("term within 20 min of midnight (guard band)");
  }
  if precise_day != t.cursory {
    ctx.violation("term_day", gkey(g), format!("calendar-making day JD {} but the precise instant JD {} (UTC+8, {:.0} s after midnight) falls on day JD {}", t.cursory, t.jd, frac, precise_day), vec!["term".into(), g.to_string()]);
  }
}

fn check_moon_day(ctx: &Ctx, l: &Lun, loc: &mut Local) {
  if !l.ok {
    return;
  }
  loc.states += 1;
  loc.transitions += 1;
  // lunation number from the first day (noon JD)
  let k0 = ((l.jd as f64 - 2451550.1) / 29.530588861).round();
  let mut best: Option<(f64, f64)> = None;
  for k in [k0 - 1.0, k0, k0 + 1.0] {
    let r = guard(|| {
      let t = ShouXingUtil::m_sa_lon_t(k * 2.0 * PI) * 36525.0;
      t - ShouXingUtil::dtt(t) + 8.0 / 24.0 + J2000
    });
    if let Ok(jd) = r {
      let d = (jd - l.jd as f64).abs();
      if best.map(|b| d < b.0).unwrap_or(true) {
        best = Some((d, jd));
      }
    }
  }
  match best {
    Some((_, jd)) => {
      let day = (jd + 0.5).floor() as i64;
      let frac = (jd + 0.5).rem_euclid(1.0) * 86400.0;
      if frac < 1800.0 || frac > 86400.0 - 1800.0 {
        loc.nontrivial += 1;
        loc.oc("conjunction within 30 min of midnight (guard band)");
      }
      if day != l.jd {
        ctx.violation("moon_day", l.key(), format!("lunar month {} starts on day JD {} but the precise conjunction JD {} (UTC+8, {:.0} s after midnight) falls on day JD {}", l.key(), l.jd, jd, frac, day), vec!["lun".into(), l.y.to_string(), l.m.to_string()]);
      }
    }
    None => ctx.violation("moon_day", l.key(), "precise conjunction not computable".into(), vec!["lun".into(), l.y.to_string(), l.m.to_string()]),
  }
}

fn check_residual(ctx: &Ctx, k: i64, worst: &std::sync::Mutex<(f64, f64)>, loc: &mut Local) {
  loc.transitions += 2;
  let w = k as f64 * PI / 12.0;
  let r = guard(|| {
    let t = ShouXingUtil::sa_lon_t(w);
    (ShouXingUtil::sa_lon(t, -1) - w).abs() / ARCSEC
  });
  match r {
    Ok(res) => {
      {
        let mut x = worst.lock().unwrap();
        if res > x.0 {
          x.0 = res;
        }
      }
      if !(res < 1.0) {
        ctx.violation("solver_residual", format!("sun k={:+07}", k), format!("sa_lon(sa_lon_t(W)) differs from W = {} * pi/12 by {:.3} arcsec (model: < 1)", k, res), vec!["res".into(), k.to_string()]);
      }
    }
    Err(m) => ctx.violation("solver_residual", format!("sun k={:+07}", k), format!("panics: {}", m), vec!["res".into(), k.to_string()]),
  }
  // one conjunction target per two term targets keeps the two spaces the same length in years
  if k % 2 == 0 {
    let kk = k / 2 * 12368 / 12000; // lunations cover the same +-10,000 years
    let w = kk as f64 * 2.0 * PI;
    let r = guard(|| {
      let t = ShouXingUtil::m_sa_lon_t(w);
      (ShouXingUtil::m_sa_lon(t, -1, 60) - w).abs() / ARCSEC
    });
    match r {
      Ok(res) => {
        {
          let mut x = worst.lock().unwrap();
          if res > x.1 {
            x.1 = res;
          }
        }
        if !(res < 1.0) {
          // two classes so that the recorded slow degradation of the lunar solver far from J2000 (known finding) cannot hide a gross failure
          let check = if res < 100.0 { "solver_residual" } else { "solver_residual_gross" };
          ctx.violation(check, format!("moon k={:+07}", kk), format!("m_sa_lon(m_sa_lon_t(W)) differs from W = {} * 2pi by {:.3} arcsec (model: < 1)", kk, res), vec!["resm".into(), kk.to_string()]);
        }
      }
      Err(m) => ctx.violation("solver_residual", format!("moon k={:+07}", kk), format!("panics: {}", m), vec!["resm".into(), kk.to_string()]),
    }
  }
}

pub fn run(ctx: &Ctx) {
  let civ = Civil::build();
  let tm = Terms::build(ctx, &civ);
  ctx.assume("independent theory: Meeus 'Astronomical Algorithms' ch. 25 low-accuracy apparent solar longitude (0.01 deg), ch. 49 new-moon series (25 periodic + 14 planetary terms), Espenak-Meeus polynomial delta-T, all typed from the published formulae; tolerances are the theories' accuracies (Sun 15 min, Moon 1 min in 1900-2150, 3 min in -1000..6000 where the comparison is in TT so delta-T does not enter)");
  ctx.assume("a perturbation of one series coefficient that moves instants by less than the tolerance and flips no civil day is not detectable offline; sub-spaces 2-4 are self-consistency, sub-space 1 is the independent one");
  // (1a) terms 1900..2150
  let worst_sun = std::sync::Mutex::new(0.0f64);
  let done = par_chunks(ctx, 24 * 1900, 24 * 2151, 64, |a, b, l| {
    for g in a..b {
      check_term_theory(ctx, &tm, g, 15.0, &worst_sun, l);
    }
  });
  ctx.subspace("(1a) all 6,024 solar terms of 1900..2150 against the independent apparent solar longitude", done, 24 * 251);
  // (1b) lunations 1900..2150 (k = -1237 .. 1868), tolerance 1 min; (1c) -1000..6000, tolerance 3 min
  let worst_moon = std::sync::Mutex::new(0.0f64);
  let done = par_chunks(ctx, 0, 3110, 64, |a, b, l| {
    for i in a..b {
      check_moon_theory(ctx, i as i64 - 1238, 1.0, &worst_moon, l);
    }
  });
  ctx.subspace("(1b) all 3,110 lunations of 1900..2150 against the independent new-moon series (TT)", done, 3110);
  let worst_moon2 = std::sync::Mutex::new(0.0f64);
  let (ka, kb) = if ctx.quick() { (-12369i64, 24737i64) } else { (-37106i64, 49474i64) };
  let done = par_chunks(ctx, 0, (kb - ka) as usize, 256, |a, b, l| {
    for i in a..b {
      check_moon_theory(ctx, ka + i as i64, 3.0, &worst_moon2, l);
    }
  });
  ctx.subspace(&format!("(1c) all lunations k = {}..{} ({}) against the new-moon series within 3 min (TT)", ka, kb, if ctx.quick() { "years 1000..4000" } else { "years -1000..6000" }), done, (kb - ka) as u64);
  // (1d) wide era, in TT (delta-T does not enter): the library's solved instant for every term target vs the independent
  // apparent longitude; the low-accuracy theory degrades away from J2000, so the tolerance grows with the distance
  let worst_wide = std::sync::Mutex::new(vec![0.0f64; 12]);
  let (ga, gb) = if ctx.quick() { (24 * 0i64, 24 * 4000i64) } else { (24 * -2000i64, 24 * 6000i64) };
  let step = if ctx.quick() { 5 } else { 1 };
  let nwide = ((gb - ga) / step) as usize;
  let done = par_chunks(ctx, 0, nwide, 512, |a, b, l| {
    for i in a..b {
      let g = ga + i as i64 * step;
      // term target: longitude 270 + 15 * index, counted in whole turns from the year-2000 terms
      let kq = g - 24 * 2000; // number of term steps from (2000, 0) = winter solstice of December 1999 (W = -pi/2)
      let w = (kq as f64 - 6.0) * PI / 12.0; // W = 0 at the March equinox of 2000 (index 6)
      l.transitions += 1;
      let r = guard(|| ShouXingUtil::sa_lon_t(w) * 36525.0 + J2000);
      match r {
        Ok(jde) => {
          let target = (270.0 + 15.0 * g.rem_euclid(24) as f64).rem_euclid(360.0);
          let mut dl = (target - sun_apparent_lon(jde)).rem_euclid(360.0);
          if dl > 180.0 {
            dl -= 360.0;
          }
          let dmin = (dl / (360.0 / 365.2422) * 1440.0).abs();
          let cy = ((jde - J2000) / 36525.0).abs();
          let ky = cy / 10.0;
          let tol = 18.0 + 2.5 * ky * ky; // minutes: measured worst 15 / 21 / 38 / 50 min at 0.5 / 2 / 3.5 / 4 millennia from J2000
          {
            let mut wv = worst_wide.lock().unwrap();
            let slot = ((cy / 5.0) as usize).min(11);
            if dmin > wv[slot] {
              wv[slot] = dmin;
            }
          }
          if !(dmin <= tol) {
            ctx.violation("term_vs_theory_tt", format!("{:+07}", g), format!("term target #{} (year {}, index {}): solved instant JDE {} (TT); the independent theory puts the Sun {:.1} min away from the target longitude (tolerance {:.0} min at this distance from J2000)", g, g.div_euclid(24), g.rem_euclid(24), jde, dmin, tol), vec!["widesun".into(), g.to_string()]);
          }
        }
        Err(m) => ctx.violation("term_vs_theory_tt", format!("{:+07}", g), format!("panics: {}", m), vec!["widesun".into(), g.to_string()]),
      }
    }
  });
  ctx.subspace(&format!("(1d) every {} term target of years {}..{} solved in TT against the independent apparent solar longitude (tolerance 18 min + 2.5 min x millennia^2; only gross secular errors are visible here)", if step == 1 { "".to_string() } else { format!("{}th", step) }, ga / 24, gb / 24), done, nwide as u64);
  ctx.note(format!("worker {}: (1d) worst Sun deviation per 500-year distance band from J2000 (min): {:?}", part().0, worst_wide.lock().unwrap().iter().map(|x| (x * 10.0).round() / 10.0).collect::<Vec<_>>()));
  // (1e) every term of years 1..9999 as reported by SolarTerm::get_julian_day: the reported instant must be the solution for
  // the target longitude of *that* term (270 + 15 k degrees of that year, not a neighbour's), i.e. equal the library's own
  // TT solution for the exact target converted with the library's own TT-UT; and the independent theory must put the Sun at
  // the target there (same growing tolerance as 1d)
  let worst_e = std::sync::Mutex::new((0.0f64, 0.0f64));
  let band_e = std::sync::Mutex::new(vec![0.0f64; 20]);
  let done = par_chunks(ctx, 24, 24 * 10000, 512, |a, b, l| {
    for g in a..b {
      let t = tm.t[g];
      l.transitions += 1;
      if t.jd.is_nan() {
        continue;
      }
      let kq = g as i64 - 24 * 2000;
      // the library counts the longitude continuously from 0 at the March equinox of 1999 (4.895 rad at J2000)
      let w = (kq as f64 - 6.0) * PI / 12.0 + 2.0 * PI;
      let r = guard(|| {
        let tt = ShouXingUtil::sa_lon_t(w) * 36525.0;
        (tt, tt - ShouXingUtil::dtt(tt) + 8.0 / 24.0 + J2000)
      });
      match r {
        Ok((tt, want)) => {
          let ds = (t.jd - want).abs() * 86400.0;
          let target = (270.0 + 15.0 * (g % 24) as f64).rem_euclid(360.0);
          let mut dl = (target - sun_apparent_lon(tt + J2000)).rem_euclid(360.0);
          if dl > 180.0 {
            dl -= 360.0;
          }
          let dmin = (dl / (360.0 / 365.2422) * 1440.0).abs();
          let ky = (tt / 36525.0).abs() / 10.0;
          // beyond 4 millennia from J2000 the low-accuracy theory degrades faster (measured 64 / 103 / 185 / 329 / 458 min in
          // the 500-year bands from 6000 / 7000 / 8000 / 9000 / 9500): only gross errors are visible there
          let tol = 18.0 + 2.5 * ky * ky + if ky > 4.0 { 16.0 * (ky - 4.0).powi(3) } else { 0.0 };
          {
            let mut wv = worst_e.lock().unwrap();
            if ds > wv.0 {
              wv.0 = ds;
            }
            if dmin / tol > wv.1 {
              wv.1 = dmin / tol;
            }
            let mut bv = band_e.lock().unwrap();
            let slot = (g / 24 / 500).min(19);
            if dmin > bv[slot] {
              bv[slot] = dmin;
            }
          }
          if !(ds <= 1.0) {
            ctx.violation("term_instant_target", gkey(g), format!("SolarTerm::get_julian_day of term {} = JD {} (UTC+8); the solution for its own target longitude {} deg is JD {}: {:.1} s apart (a neighbouring term's instant is ~15 days away)", gkey(g), t.jd, target, want, ds), vec!["term".into(), g.to_string()]);
          }
          if !(dmin <= tol) {
            ctx.violation("term_vs_theory_tt", gkey(g), format!("term {}: the library's TT solution JDE {} for {} deg: the independent theory puts the Sun {:.1} min away (tolerance {:.0} min at this distance from J2000)", gkey(g), tt + J2000, target, dmin, tol), vec!["term".into(), g.to_string()]);
          }
        }
        Err(m) => ctx.violation("term_instant_target", gkey(g), format!("panics: {}", m), vec!["term".into(), g.to_string()]),
      }
    }
  });
  ctx.subspace("(1e) all 239,976 terms of years 1..9999: SolarTerm::get_julian_day = the library's TT solution for the term's own target longitude converted with its own TT-UT (1 s), and the independent solar theory agrees at that TT instant (18 min + 2.5 min x millennia^2, + 16 min x (millennia - 4)^3 beyond AD 6000)", done, 239_976);
  let we = *worst_e.lock().unwrap();
  ctx.note(format!("worker {}: (1e) worst independent Sun deviation per 500-year band from year 0 (min): {:?}", part().0, band_e.lock().unwrap().iter().map(|x| x.round()).collect::<Vec<_>>()));
  ctx.note(format!("worker {}: (1e) worst |reported - own-target solution| {:.3} s; worst independent deviation / tolerance {:.2}", part().0, we.0, we.1));
  // (2a) terms 1961..9999: calendar day == day of the precise instant
  // the day-agreement spaces cost a few seconds, so both tiers enumerate them completely
  let years: Vec<isize> = (1961..=9999).collect();
  let done = par_chunks(ctx, 0, years.len(), 16, |a, b, l| {
    for i in a..b {
      for j in 0..24 {
        check_term_day(ctx, &tm, 24 * years[i] as usize + j, l);
      }
      l.traces += 1;
    }
  });
  ctx.subspace(&format!("(2a) terms of {} years in 1961..9999 ({} terms): calendar-making day = UTC+8 civil day of the precise instant", years.len(), years.len() * 24), done, years.len() as u64 * 24);
  // (2b) lunations of lunar years 1961..8000
  let t = LunTable::build(ctx, 1961, 8000);
  let lyears: Vec<isize> = (1961..=8000).collect();
  let mut idx: Vec<usize> = Vec::new();
  for &y in &lyears {
    idx.extend(t.year_start[y as usize] as usize..t.year_start[y as usize + 1] as usize);
  }
  let done = par_chunks(ctx, 0, idx.len(), 64, |a, b, l| {
    for i in a..b {
      check_moon_day(ctx, &t.l[idx[i]], l);
    }
  });
  ctx.subspace(&format!("(2b) lunar months of {} lunar years in 1961..8000 ({} lunations): first day = UTC+8 civil day of the precise conjunction", lyears.len(), idx.len()), done, idx.len() as u64);
  // (3) solver residuals over +-10,000 years
  let worst_res = std::sync::Mutex::new((0.0f64, 0.0f64));
  let step: i64 = if ctx.quick() { 10 } else { 1 };
  let n = (480_000 / step) as usize;
  let done = par_chunks(ctx, 0, n, 512, |a, b, l| {
    for i in a..b {
      check_residual(ctx, -240_000 + i as i64 * step, &worst_res, l);
    }
  });
  ctx.subspace(&format!("(3) inverse-solver residuals: {} term targets k*pi/12 and {} conjunction targets over +-10,000 years{}", n, n / 2, if ctx.quick() { " (every 10th target)" } else { "" }), done, n as u64);
  // (4) delta-T continuity: second differences on a 0.05-year grid over -4000..10000
  let h = 0.05f64;
  let cells = ((10000.0 + 4000.0) / h) as usize;
  let worst_dt = std::sync::Mutex::new((0.0f64, 0.0f64));
  let done = par_chunks(ctx, 1, cells - 1, 4096, |a, b, l| {
    for i in a..b {
      let y = -4000.0 + i as f64 * h;
      l.transitions += 1;
      let r = guard(|| (ShouXingUtil::dt_calc(y - h), ShouXingUtil::dt_calc(y), ShouXingUtil::dt_calc(y + h)));
      match r {
        Ok((p, c, n)) => {
          let dd = (n - 2.0 * c + p).abs();
          {
            let mut w = worst_dt.lock().unwrap();
            if dd > w.0 {
              *w = (dd, y);
            }
          }
          if !(dd < 6.0) {
            ctx.violation("delta_t_jump", format!("{:+010.2}", y), format!("delta-T jumps by about {:.1} s near year {:.2} (values {:.2}, {:.2}, {:.2} at spacing {} y; model: continuous to within a few seconds)", dd, y, p, c, n, h), vec!["dt".into(), i.to_string()]);
          }
        }
        Err(m) => ctx.violation("delta_t_jump", format!("{:+010.2}", y), format!("panics: {}", m), vec!["dt".into(), i.to_string()]),
      }
    }
  });
  ctx.subspace("(4) delta-T second differences on a 0.05-year grid over years -4000..10000 (a jump at a segment join shows up as a second difference of the jump's size)", done, cells as u64);
  let (ws, wm, wm2) = (*worst_sun.lock().unwrap(), *worst_moon.lock().unwrap(), *worst_moon2.lock().unwrap());
  let wr = *worst_res.lock().unwrap();
  let wd = *worst_dt.lock().unwrap();
  ctx.note(format!("worker {}: worst deviations: Sun {:.2} min, Moon 1900-2150 {:.3} min, Moon wide {:.3} min; solver residuals Sun {:.3}\" Moon {:.3}\"; largest delta-T second difference {:.3} s near year {:.1}", part().0, ws, wm, wm2, wr.0, wr.1, wd.0, wd.1));
  if ctx.primary() {
    let g = 24 * 2024 + 6;
    ctx.sample(format!("term {} (春分 2024): library JD {} UTC+8; theory longitude at that instant {:.4} deg (target 0)", gkey(g), tm.t[g].jd, sun_apparent_lon(tm.t[g].jd - 8.0 / 24.0 + delta_t_em(2024.2) / 86400.0)));
    ctx.sample(format!("new moon k=300: library JDE {:.5}, theory JDE {:.5}", lib_new_moon_tt(300.0), new_moon_jde(300.0)));
  }
}

pub fn replay(ctx: &Ctx, args: &[String]) {
  let civ = Civil::build();
  let n: Vec<i64> = args[1..].iter().filter_map(|a| a.parse().ok()).collect();
  let mut l = Local::default();
  let w = std::sync::Mutex::new(0.0f64);
  match args[0].as_str() {
    "term" => {
      let g = n[0] as usize;
      let tm = Terms::build_range(ctx, &civ, g / 24, g / 24);
      if (1900..=2150).contains(&(g / 24)) {
        check_term_theory(ctx, &tm, g, 15.0, &w, &mut l);
      }
      if g / 24 >= 1961 {
        check_term_day(ctx, &tm, g, &mut l);
      }
    }
    "moon" => check_moon_theory(ctx, n[0], if (-1238..=1871).contains(&n[0]) { 1.0 } else { 3.0 }, &w, &mut l),
    "lun" => {
      let t = LunTable::build(ctx, n[0] as isize, n[0] as isize);
      let p = t.pos(n[0] as isize, n[1] as isize).unwrap();
      check_moon_day(ctx, &t.l[p], &mut l);
    }
    "res" => check_residual(ctx, n[0], &std::sync::Mutex::new((0.0, 0.0)), &mut l),
    "resm" => check_residual(ctx, n[0] * 12000 / 12368 * 2, &std::sync::Mutex::new((0.0, 0.0)), &mut l),
    _ => run(ctx),
  }
  ctx.add(&l);
}
