//! C11 Stepping by n is a consistent group action on every time unit and cycle.
//! Cyclic types: state = element of the cycle (all), alphabet A of step counts, pairs A x A; oracle = Z/size.
//! Linear units: state = value of the unit, oracle = an ordinal model per unit (12*year+month-1, instant ordinal, ...).

use crate::engine::*;
use crate::props::c12::{fmt_inst, inst_of, mk_time};
use crate::refmodel::civil::*;
use tyme4rs::tyme::culture::dog::*;
use tyme4rs::tyme::culture::fetus::*;
use tyme4rs::tyme::culture::nine::*;
use tyme4rs::tyme::culture::peng_zu::*;
use tyme4rs::tyme::culture::phenology::*;
use tyme4rs::tyme::culture::plumrain::*;
use tyme4rs::tyme::culture::ren::minor::MinorRen;
use tyme4rs::tyme::culture::star::nine::*;
use tyme4rs::tyme::culture::star::seven::*;
use tyme4rs::tyme::culture::star::six::*;
use tyme4rs::tyme::culture::star::ten::*;
use tyme4rs::tyme::culture::star::twelve::*;
use tyme4rs::tyme::culture::star::twenty_eight::*;
use tyme4rs::tyme::culture::*;
use tyme4rs::tyme::jd::JulianDay;
use tyme4rs::tyme::lunar::*;
use tyme4rs::tyme::sixtycycle::*;
use tyme4rs::tyme::solar::*;
use tyme4rs::tyme::{Culture, Tyme};

type Obs = (usize, String, usize); // (index, name, size)

struct Cyc {
  ty: &'static str,
  names: Vec<String>,
  from_index: Box<dyn Fn(isize) -> Obs + Sync>,
  from_name: Option<Box<dyn Fn(&str) -> Obs + Sync>>,
  /// from_index(i).next(a) and from_index(i).next(a).next(b)
  step: Box<dyn Fn(isize, isize) -> Obs + Sync>,
  step2: Box<dyn Fn(isize, isize, isize) -> Obs + Sync>,
}

macro_rules! cyc {
  ($v:ident, $t:ident, $names:expr) => {
    $v.push(Cyc {
      ty: stringify!($t),
      names: $names.iter().map(|x| x.to_string()).collect(),
      from_index: Box::new(|i| {
        let x = $t::from_index(i);
        (x.get_index(), x.get_name(), x.get_size())
      }),
      from_name: Some(Box::new(|n| {
        let x = $t::from_name(n);
        (x.get_index(), x.get_name(), x.get_size())
      })),
      step: Box::new(|i, a| {
        let x = $t::from_index(i).next(a);
        (x.get_index(), x.get_name(), x.get_size())
      }),
      step2: Box::new(|i, a, b| {
        let x = $t::from_index(i).next(a).next(b);
        (x.get_index(), x.get_name(), x.get_size())
      }),
    });
  };
  ($v:ident, $t:ident, $names:expr, noname) => {
    $v.push(Cyc {
      ty: stringify!($t),
      names: $names.iter().map(|x| x.to_string()).collect(),
      from_index: Box::new(|i| {
        let x = $t::from_index(i);
        (x.get_index(), x.get_name(), x.get_size())
      }),
      from_name: None,
      step: Box::new(|i, a| {
        let x = $t::from_index(i).next(a);
        (x.get_index(), x.get_name(), x.get_size())
      }),
      step2: Box::new(|i, a, b| {
        let x = $t::from_index(i).next(a).next(b);
        (x.get_index(), x.get_name(), x.get_size())
      }),
    });
  };
}

fn cycles() -> Vec<Cyc> {
  let mut v: Vec<Cyc> = Vec::new();
  cyc!(v, HeavenStem, HEAVEN_STEM_NAMES);
  cyc!(v, EarthBranch, EARTH_BRANCH_NAMES);
  cyc!(v, SixtyCycle, SIXTY_CYCLE_NAMES);
  cyc!(v, LunarSeason, LUNAR_SEASON_NAMES);
  cyc!(v, Animal, ANIMAL_NAMES);
  cyc!(v, Beast, BEAST_NAMES);
  cyc!(v, Constellation, CONSTELLATION_NAMES);
  cyc!(v, Direction, DIRECTION_NAMES);
  cyc!(v, Duty, DUTY_NAMES);
  cyc!(v, Element, ELEMENT_NAMES);
  cyc!(v, God, GOD_NAMES);
  cyc!(v, Land, LAND_NAMES);
  cyc!(v, Luck, LUCK_NAMES);
  cyc!(v, Phase, PHASE_NAMES);
  cyc!(v, Sixty, SIXTY_NAMES);
  cyc!(v, Sound, SOUND_NAMES);
  cyc!(v, Taboo, TABOO_NAMES);
  cyc!(v, Ten, TEN_NAMES);
  cyc!(v, Terrain, TERRAIN_NAMES);
  cyc!(v, Twenty, TWENTY_NAMES);
  cyc!(v, Week, WEEK_NAMES);
  cyc!(v, Zodiac, ZODIAC_NAMES);
  cyc!(v, Zone, ZONE_NAMES);
  cyc!(v, Dog, DOG_NAMES);
  cyc!(v, Nine, NINE_NAMES);
  cyc!(v, PengZuHeavenStem, PENG_ZU_HEAVEN_STEM_NAMES);
  cyc!(v, PengZuEarthBranch, PENG_ZU_EARTH_BRANCH_NAMES);
  cyc!(v, Phenology, PHENOLOGY_NAMES);
  cyc!(v, ThreePhenology, THREE_PHENOLOGY_NAMES);
  cyc!(v, PlumRain, PLUM_RAIN_NAMES);
  cyc!(v, MinorRen, tyme4rs::tyme::culture::ren::minor::SIX_STAR_NAMES);
  cyc!(v, Dipper, DIPPER_NAMES);
  cyc!(v, NineStar, NINE_STAR_NAMES);
  cyc!(v, SevenStar, SEVEN_STAR_NAMES);
  cyc!(v, SixStar, tyme4rs::tyme::culture::star::six::SIX_STAR_NAMES);
  cyc!(v, TenStar, TEN_STAR_NAMES);
  cyc!(v, Ecliptic, ECLIPTIC_NAMES);
  cyc!(v, TwelveStar, TWELVE_STAR_NAMES);
  cyc!(v, TwentyEightStar, TWENTY_EIGHT_STAR_NAMES);
  cyc!(v, FetusHeavenStem, FETUS_HEAVEN_STEM_NAMES, noname);
  cyc!(v, FetusEarthBranch, FETUS_EARTH_BRANCH_NAMES, noname);
  cyc!(v, FetusMonth, FETUS_MONTH_NAMES, noname);
  v
}

fn check_cycle(ctx: &Ctx, c: &Cyc, pool: &[String], loc: &mut Local) {
  let size = c.names.len() as isize;
  let alpha: Vec<isize> = {
    let mut a = vec![0];
    for n in [1, 2, size - 1, size, size + 1, 2 * size + 1, 1000003, (1isize << 31) + 7, 3_000_000_011, (1isize << 32) + 5, (1isize << 40) + 123] {
      a.push(n);
      a.push(-n);
    }
    a
  };
  let rp = vec!["cycle".to_string(), c.ty.to_string()];
  // from_index wraps, names
  for i in -2 * size..3 * size {
    loc.transitions += 1;
    let want = i.rem_euclid(size) as usize;
    match guard(|| (c.from_index)(i)) {
      Ok((idx, name, sz)) => {
        if idx != want || name != c.names[want] || sz != size as usize {
          ctx.violation("cycle_index", format!("{} from_index({})", c.ty, i), format!("from_index({}) = (index {}, {}, size {}), model (index {}, {}, size {})", i, idx, name, sz, want, c.names[want], size), rp.clone());
        }
      }
      Err(m) => ctx.violation("cycle_index", format!("{} from_index({})", c.ty, i), format!("panics: {}", m), rp.clone()),
    }
  }
  // stepping and the pair law, from every element
  for i in 0..size {
    loc.states += 1;
    for &a in &alpha {
      loc.transitions += 1;
      let want = (i + a).rem_euclid(size) as usize;
      match guard(|| (c.step)(i, a)) {
        Ok((idx, name, _)) => {
          if idx != want || name != c.names[want] {
            ctx.violation("cycle_next", format!("{}[{}] n={:+}", c.ty, i, a), format!("{}.next({}) = (index {}, {}), model (index {}, {})", c.names[i as usize], a, idx, name, want, c.names[want]), rp.clone());
          }
        }
        Err(m) => ctx.violation("cycle_next", format!("{}[{}] n={:+}", c.ty, i, a), format!("panics: {}", m), rp.clone()),
      }
      for &b in &alpha {
        loc.transitions += 1;
        let want2 = (i + a + b).rem_euclid(size) as usize;
        match guard(|| (c.step2)(i, a, b)) {
          Ok((idx, name, _)) => {
            if idx != want2 || name != c.names[want2] {
              ctx.violation("cycle_pair", format!("{}[{}] a={:+} b={:+}", c.ty, i, a, b), format!("{}.next({}).next({}) = (index {}, {}), model next({}) = (index {}, {})", c.names[i as usize], a, b, idx, name, a + b, want2, c.names[want2]), rp.clone());
            }
          }
          Err(m) => ctx.violation("cycle_pair", format!("{}[{}] a={:+} b={:+}", c.ty, i, a, b), format!("panics: {}", m), rp.clone()),
        }
      }
    }
  }
  // names <-> indices
  if let Some(fnm) = &c.from_name {
    for i in 0..size as usize {
      loc.transitions += 1;
      let least = c.names.iter().position(|n| *n == c.names[i]).unwrap();
      match guard(|| fnm(&c.names[i])) {
        Ok((idx, name, sz)) => {
          if idx != least || name != c.names[i] || sz != size as usize {
            ctx.violation("cycle_name", format!("{} from_name({})", c.ty, c.names[i]), format!("from_name({}) = (index {}, {}, size {}), model (index {}, size {})", c.names[i], idx, name, sz, least, size), rp.clone());
          }
        }
        Err(m) => ctx.violation("cycle_name", format!("{} from_name({})", c.ty, c.names[i]), format!("a published name is refused: {}", m), rp.clone()),
      }
    }
    // unknown names are refused: empty, near misses, every name of every other cycle that is not a name of this one
    let mut unknown: Vec<String> = vec!["".into(), " ".into(), format!("{}x", c.names[0]), format!(" {}", c.names[0])];
    for n in pool {
      if !c.names.contains(n) {
        unknown.push(n.clone());
      }
    }
    // recombinations inside the cycle: first character of one published name + the rest of another
    // (for composite names such as stem+branch this yields the well-formed but non-existent pairs, e.g. 甲丑)
    for a in &c.names {
      for b in &c.names {
        let mut ca = a.chars();
        let first = match ca.next() {
          Some(ch) => ch,
          None => continue,
        };
        let rest: String = b.chars().skip(1).collect();
        let cand = format!("{}{}", first, rest);
        if !c.names.contains(&cand) && !unknown.contains(&cand) {
          unknown.push(cand);
        }
      }
    }
    for u in unknown {
      loc.transitions += 1;
      if let Ok((idx, name, _)) = guard(|| fnm(&u)) {
        ctx.violation("cycle_name", format!("{} from_name({})", c.ty, u), format!("unknown name '{}' accepted as (index {}, {})", u, idx, name), rp.clone());
      }
    }
  }
  loc.traces += 1;
  loc.nontrivial += size as u64;
}

// ---------------------------------------------------------------------------------------------
// linear units: a generic checker over an ordinal model

struct Lin<'a> {
  unit: &'static str,
  /// impl: construct value with ordinal o, step by a then b, report the ordinal of the result (None = not a value / inconsistent)
  step: Box<dyn Fn(i64, i64, i64) -> Option<i64> + Sync + 'a>,
  lo: i64,
  hi: i64,
  fmt: Box<dyn Fn(i64) -> String + Sync + 'a>,
}

fn check_lin(ctx: &Ctx, l: &Lin, o: i64, alpha: &[i64], loc: &mut Local) {
  loc.states += 1;
  for &a in alpha {
    if o + a < l.lo || o + a > l.hi {
      continue;
    }
    for &b in alpha {
      let t = o + a + b;
      if t < l.lo || t > l.hi {
        continue;
      }
      loc.transitions += 1;
      let r = guard(|| (l.step)(o, a, b));
      let key = format!("{} {} a={:+} b={:+}", l.unit, (l.fmt)(o), a, b);
      let rp = vec!["lin".to_string(), l.unit.to_string(), o.to_string(), a.to_string(), b.to_string()];
      match r {
        Ok(Some(got)) => {
          if got != t {
            ctx.violation("linear_step", key, format!("{}: {}.next({}).next({}) = {}, model = {} ({} units from the start)", l.unit, (l.fmt)(o), a, b, (l.fmt)(got), (l.fmt)(t), a + b), rp);
          }
        }
        Ok(None) => ctx.violation("linear_step", key, format!("{}: {}.next({}).next({}) is not a consistent value; model = {}", l.unit, (l.fmt)(o), a, b, (l.fmt)(t)), rp),
        Err(m) => ctx.violation("linear_step", key, format!("{}: {}.next({}).next({}) panics: {}; model = {}", l.unit, (l.fmt)(o), a, b, m, (l.fmt)(t)), rp),
      }
    }
  }
}

fn sym(v: &[i64]) -> Vec<i64> {
  let mut a = vec![0];
  for &n in v {
    a.push(n);
    a.push(-n);
  }
  a
}

fn linear_units<'a>(civ: &'a Civil, lt: &'a crate::refmodel::lunar::LunTable) -> Vec<(Lin<'a>, Vec<i64>, Vec<i64>)> {
  // (unit, states, alphabet)
  let mut v: Vec<(Lin, Vec<i64>, Vec<i64>)> = Vec::new();
  v.push((
    Lin { unit: "SolarYear", lo: 1, hi: 9999, fmt: Box::new(|o| format!("{}", o)), step: Box::new(|o, a, b| Some(SolarYear::from_year(o as isize).next(a as isize).next(b as isize).get_year() as i64)) },
    (1..=9999).collect(),
    sym(&[1, 2, 10, 9998]),
  ));
  v.push((
    Lin { unit: "LunarYear", lo: -1, hi: 9999, fmt: Box::new(|o| format!("{}", o)), step: Box::new(|o, a, b| Some(LunarYear::from_year(o as isize).next(a as isize).next(b as isize).get_year() as i64)) },
    (-1..=9999).collect(),
    sym(&[1, 2, 60, 10000]),
  ));
  v.push((
    Lin { unit: "SixtyCycleYear", lo: -1, hi: 9999, fmt: Box::new(|o| format!("{}", o)), step: Box::new(|o, a, b| Some(SixtyCycleYear::from_year(o as isize).next(a as isize).next(b as isize).get_year() as i64)) },
    (-1..=9999).collect(),
    sym(&[1, 2, 60, 10000]),
  ));
  v.push((
    Lin {
      unit: "SolarHalfYear",
      lo: 2,
      hi: 2 * 9999 + 1,
      fmt: Box::new(|o| format!("{}H{}", o.div_euclid(2), o.rem_euclid(2))),
      step: Box::new(|o, a, b| {
        let x = SolarHalfYear::from_index(o.div_euclid(2) as isize, o.rem_euclid(2) as usize).next(a as isize).next(b as isize);
        Some(2 * x.get_year() as i64 + x.get_index() as i64)
      }),
    },
    (2..=2 * 9999 + 1).collect(),
    sym(&[1, 2, 3, 19997]),
  ));
  v.push((
    Lin {
      unit: "SolarSeason",
      lo: 4,
      hi: 4 * 9999 + 3,
      fmt: Box::new(|o| format!("{}Q{}", o.div_euclid(4), o.rem_euclid(4))),
      step: Box::new(|o, a, b| {
        let x = SolarSeason::from_index(o.div_euclid(4) as isize, o.rem_euclid(4) as usize).next(a as isize).next(b as isize);
        Some(4 * x.get_year() as i64 + x.get_index() as i64)
      }),
    },
    (4..=4 * 9999 + 3).collect(),
    sym(&[1, 3, 4, 5, 39993]),
  ));
  v.push((
    Lin {
      unit: "SolarMonth",
      lo: 12,
      hi: 12 * 9999 + 11,
      fmt: Box::new(|o| format!("{}-{:02}", o.div_euclid(12), o.rem_euclid(12) + 1)),
      step: Box::new(|o, a, b| {
        let x = SolarMonth::from_ym(o.div_euclid(12) as isize, o.rem_euclid(12) as usize + 1).next(a as isize).next(b as isize);
        Some(12 * x.get_year() as i64 + x.get_month() as i64 - 1)
      }),
    },
    (12..=12 * 9999 + 11).collect(),
    sym(&[1, 11, 12, 13, 25, 119975]),
  ));
  v.push((
    Lin {
      unit: "SixtyCycleMonth",
      lo: -12,
      hi: 12 * 9999 + 11,
      fmt: Box::new(|o| format!("{}/{}", o.div_euclid(12), o.rem_euclid(12))),
      step: Box::new(|o, a, b| {
        let x = SixtyCycleMonth::from_index(o.div_euclid(12) as isize, o.rem_euclid(12) as isize).next(a as isize).next(b as isize);
        let ord = 12 * x.get_sixty_cycle_year().get_year() as i64 + x.get_index_in_year() as i64;
        // the pillar must be the one of that (year, index): Five Tigers
        let want = crate::refmodel::pillar::month_pillar(ord.div_euclid(12), ord.rem_euclid(12) as usize);
        if x.get_sixty_cycle().get_name() != want {
          return None;
        }
        Some(ord)
      }),
    },
    (-12..=12 * 9999 + 11).collect(),
    sym(&[1, 2, 11, 12, 13, 60, 119987]),
  ));
  v.push((
    Lin {
      unit: "JulianDay",
      lo: 0,
      hi: 6_000_000,
      fmt: Box::new(|o| format!("JD {}.25", o)),
      step: Box::new(|o, a, b| {
        let x = JulianDay::from_julian_day(o as f64 + 0.25).next(a as isize).next(b as isize).get_day();
        if x.fract() != 0.25 {
          return None;
        }
        Some(x.floor() as i64)
      }),
    },
    (0..6_000_000).step_by(9973).collect(),
    sym(&[1, 2, 365, 1_000_000]),
  ));
  // lunar months: ordinal = position in the lunation table (model order)
  let nl = lt.l.len() as i64;
  v.push((
    Lin {
      unit: "LunarMonth",
      lo: 0,
      hi: nl - 1,
      fmt: Box::new(move |o| lt.l[o as usize].key()),
      step: Box::new(move |o, a, b| {
        let l = lt.l[o as usize];
        let m = LunarMonth::from_ym(l.y as isize, l.m as isize).next(a as isize).next(b as isize);
        lt.pos(m.get_year(), m.get_month_with_leap()).map(|p| p as i64)
      }),
    },
    (0..nl).collect(),
    sym(&[1, 12, 13, 25]),
  ));
  // lunar months, multi-decade steps (a step of 235 months crosses 19 lunar years, which hold 234..236 months)
  v.push((
    Lin {
      unit: "LunarMonth(long steps)",
      lo: 0,
      hi: nl - 1,
      fmt: Box::new(move |o| lt.l[o as usize].key()),
      step: Box::new(move |o, a, b| {
        let l = lt.l[o as usize];
        let m = LunarMonth::from_ym(l.y as isize, l.m as isize).next(a as isize).next(b as isize);
        lt.pos(m.get_year(), m.get_month_with_leap()).map(|p| p as i64)
      }),
    },
    (0..nl).step_by(25).collect(),
    sym(&[1, 235, 470]),
  ));
  // solar terms: ordinal = 24 * year + index
  v.push((
    Lin {
      unit: "SolarTerm",
      lo: 0,
      hi: 24 * 10000 + 23,
      fmt: Box::new(|o| format!("{}#{}", o / 24, o % 24)),
      step: Box::new(|o, a, b| {
        let t = SolarTerm::from_index((o / 24) as isize, (o % 24) as isize).next(a as isize).next(b as isize);
        Some(24 * t.get_year() as i64 + t.get_index() as i64)
      }),
    },
    (24..24 * 10000).step_by(5).collect(),
    sym(&[1, 23, 24, 25, 1000]),
  ));
  // the same two units addressed with an out-of-range index: from_index(year, index + a) must be the element a steps away
  v.push((
    Lin {
      unit: "SolarTerm(raw index)",
      lo: 0,
      hi: 24 * 10000 + 23,
      fmt: Box::new(|o| format!("{}#{}", o / 24, o % 24)),
      step: Box::new(|o, a, b| {
        let t = SolarTerm::from_index((o / 24) as isize, (o % 24 + a) as isize).next(b as isize);
        Some(24 * t.get_year() as i64 + t.get_index() as i64)
      }),
    },
    (24 * 2..24 * 9998).step_by(29).collect(),
    sym(&[1, 23, 24, 25, 47, 1000]),
  ));
  v.push((
    Lin {
      unit: "SixtyCycleMonth(raw index)",
      lo: -12,
      hi: 12 * 9999 + 11,
      fmt: Box::new(|o| format!("{}/{}", o.div_euclid(12), o.rem_euclid(12))),
      step: Box::new(|o, a, b| {
        let x = SixtyCycleMonth::from_index(o.div_euclid(12) as isize, (o.rem_euclid(12) + a) as isize).next(b as isize);
        let ord = 12 * x.get_sixty_cycle_year().get_year() as i64 + x.get_index_in_year() as i64;
        if x.get_sixty_cycle().get_name() != crate::refmodel::pillar::month_pillar(ord.div_euclid(12), ord.rem_euclid(12) as usize) {
          return None;
        }
        Some(ord)
      }),
    },
    (12 * 2..12 * 9998).step_by(13).collect(),
    sym(&[1, 11, 12, 13, 25, 60]),
  ));
  // fortunes: ordinal = index of the decade / yearly fortune of a fixed child limit
  for (bi, birth) in [(1989isize, 12usize, 31usize, 23usize, true), (2024, 3, 3, 12, false), (1583, 1, 1, 0, true), (2022, 3, 4, 12, true)].into_iter().enumerate() {
    let mk_cl = move || tyme4rs::tyme::eightchar::ChildLimit::from_solar_time(SolarTime::from_ymd_hms(birth.0, birth.1, birth.2, birth.3, 7, 17), if birth.4 { tyme4rs::tyme::enums::Gender::MAN } else { tyme4rs::tyme::enums::Gender::WOMAN });
    v.push((
      Lin {
        unit: ["DecadeFortune#0", "DecadeFortune#1", "DecadeFortune#2", "DecadeFortune#3 (limit ends in the birth year)"][bi],
        lo: -30,
        hi: 60,
        fmt: Box::new(|o| format!("index {}", o)),
        step: Box::new(move |o, a, b| {
          // the stepped decade must be the decade built directly at that index (pillar, ages, years) and its first yearly
          // fortune must be the yearly fortune 10 x index
          let x = tyme4rs::tyme::eightchar::DecadeFortune::from_child_limit(mk_cl(), o as isize).next(a as isize).next(b as isize);
          let d = tyme4rs::tyme::eightchar::DecadeFortune::from_child_limit(mk_cl(), x.get_index());
          let f = x.get_start_fortune();
          if x.get_sixty_cycle().get_name() != d.get_sixty_cycle().get_name() || x.get_start_age() != d.get_start_age() || x.get_start_sixty_cycle_year().get_year() != d.get_start_sixty_cycle_year().get_year() || f.get_index() != 10 * x.get_index() || f.get_age() != x.get_start_age() {
            return None;
          }
          Some(x.get_index() as i64)
        }),
      },
      (-5..=12).collect(),
      sym(&[1, 2, 7, 13]),
    ));
    v.push((
      Lin {
        unit: ["Fortune#0", "Fortune#1", "Fortune#2", "Fortune#3 (limit ends in the birth year)"][bi],
        lo: -30,
        hi: 120,
        fmt: Box::new(|o| format!("index {}", o)),
        step: Box::new(move |o, a, b| Some(tyme4rs::tyme::eightchar::Fortune::from_child_limit(mk_cl(), o as isize).next(a as isize).next(b as isize).get_index() as i64)),
      },
      (-5..=70).collect(),
      sym(&[1, 2, 10, 59]),
    ));
  }
  // day-level units on boundary dates of the windows; the full date x step space is C01's
  let mut dates: Vec<i64> = Vec::new();
  for (ya, yb) in [(1i32, 2i32), (1582, 1583), (2023, 2025), (9998, 9999)] {
    let (a, b) = civ.year_range(ya, yb);
    for o in a..b {
      let d = civ.date(o);
      if d.2 <= 2 || d.2 >= 28 || (d.0 == 1582 && d.1 == 10) {
        dates.push(o as i64);
      }
    }
  }
  let n = civ.len() as i64;
  v.push((
    Lin {
      unit: "SolarDay",
      lo: 0,
      hi: n - 1,
      fmt: Box::new(move |o| fmt_ymd(civ.date(o as usize))),
      step: Box::new(move |o, a, b| {
        let d = civ.date(o as usize);
        let x = SolarDay::from_ymd(d.0 as isize, d.1 as usize, d.2 as usize).next(a as isize).next(b as isize);
        civ.ord(x.get_year() as i32, x.get_month() as u8, x.get_day() as u8).map(|o| o as i64)
      }),
    },
    dates.clone(),
    sym(&[1, 2, 28, 31, 365, 366, 36525]),
  ));
  v.push((
    Lin {
      unit: "LunarDay",
      lo: 400,
      hi: n - 1,
      fmt: Box::new(move |o| fmt_ymd(civ.date(o as usize))),
      step: Box::new(move |o, a, b| {
        let d = civ.date(o as usize);
        let x = SolarDay::from_ymd(d.0 as isize, d.1 as usize, d.2 as usize).get_lunar_day().next(a as isize).next(b as isize);
        let s = x.get_solar_day();
        civ.ord(s.get_year() as i32, s.get_month() as u8, s.get_day() as u8).map(|o| o as i64)
      }),
    },
    dates.iter().cloned().filter(|o| *o >= 400 && civ.date(*o as usize).0 != 1).collect(),
    sym(&[1, 29, 30, 354, 384]),
  ));
  v.push((
    Lin {
      unit: "SixtyCycleDay",
      lo: 400,
      hi: n - 400,
      fmt: Box::new(move |o| fmt_ymd(civ.date(o as usize))),
      step: Box::new(move |o, a, b| {
        let d = civ.date(o as usize);
        let x = SolarDay::from_ymd(d.0 as isize, d.1 as usize, d.2 as usize).get_sixty_cycle_day().next(a as isize).next(b as isize);
        let s = x.get_solar_day();
        let o2 = civ.ord(s.get_year() as i32, s.get_month() as u8, s.get_day() as u8)? as i64;
        if x.get_sixty_cycle().get_name() != crate::refmodel::pillar::pillar_name(crate::refmodel::pillar::day_pillar(civ.jdn(o2 as usize))) {
          return None;
        }
        Some(o2)
      }),
    },
    dates.iter().cloned().filter(|o| *o >= 800 && *o < n - 800 && civ.date(*o as usize).0 != 1).collect(),
    sym(&[1, 59, 60, 61, 365]),
  ));
  // instant-level units: lattice of clock times on those dates
  let mut insts: Vec<i64> = Vec::new();
  for &o in dates.iter() {
    if civ.date(o as usize).0 == 1 || civ.date(o as usize).0 == 9999 {
      continue;
    }
    for s in [0i64, 3599, 3600, 43200, 82800, 86399] {
      insts.push(o * 86400 + s);
    }
  }
  v.push((
    Lin {
      unit: "SolarTime",
      lo: 0,
      hi: n * 86400 - 1,
      fmt: Box::new(move |o| fmt_inst(civ, o)),
      step: Box::new(move |o, a, b| inst_of(civ, &mk_time(civ, o).next(a as isize).next(b as isize))),
    },
    insts.clone(),
    sym(&[1, 60, 3600, 86399, 86400, 86401, 31 * 86400]),
  ));
  v.push((
    Lin {
      unit: "SixtyCycleHour",
      lo: 0,
      hi: n * 86400 - 1,
      fmt: Box::new(move |o| fmt_inst(civ, o)),
      step: Box::new(move |o, a, b| inst_of(civ, &mk_time(civ, o).get_sixty_cycle_hour().next(a as isize).next(b as isize).get_solar_time())),
    },
    insts.iter().cloned().step_by(3).collect(),
    sym(&[1, 7200, 86400]),
  ));
  // LunarHour steps by double-hours (7200 s), keeping minute and second; ordinal unit = 2 hours from an even hour grid
  let mut lh: Vec<i64> = Vec::new();
  for &o in dates.iter() {
    let y = civ.date(o as usize).0;
    if y == 1 || y == 9999 || y == 9998 {
      continue;
    }
    for h in 0..24i64 {
      lh.push(o * 86400 + h * 3600 + 754);
    }
  }
  v.push((
    Lin {
      unit: "LunarHour(2h steps)",
      lo: 0,
      hi: (n * 86400 - 1) / 7200,
      fmt: Box::new(move |o| format!("{} (+k*2h)", fmt_inst(civ, o))),
      // here the ordinal is the instant itself and steps are scaled by 7200 s
      step: Box::new(move |o, a, b| {
        let x = mk_time(civ, o).get_lunar_hour().next(a as isize).next(b as isize);
        inst_of(civ, &x.get_solar_time())
      }),
    },
    lh,
    sym(&[1, 5, 6, 11, 12, 13, 24, 100]),
  ));
  v
}

fn check_lin_scaled(ctx: &Ctx, l: &Lin, o: i64, alpha: &[i64], scale: i64, max: i64, loc: &mut Local) {
  // variant of check_lin where one step is `scale` ordinals (LunarHour: 7200 s)
  loc.states += 1;
  for &a in alpha {
    for &b in alpha {
      let t = o + (a + b) * scale;
      let mid = o + a * scale;
      if t < 86400 || t > max || mid < 86400 || mid > max {
        continue;
      }
      loc.transitions += 1;
      let r = guard(|| (l.step)(o, a, b));
      let key = format!("{} {} a={:+} b={:+}", l.unit, (l.fmt)(o), a, b);
      let rp = vec!["lin".to_string(), l.unit.to_string(), o.to_string(), a.to_string(), b.to_string()];
      match r {
        Ok(Some(got)) => {
          if got != t {
            ctx.violation("linear_step", key, format!("{}: next({}).next({}) lands {} s from the start, model {} s", l.unit, a, b, got - o, (a + b) * scale), rp);
          }
        }
        Ok(None) => ctx.violation("linear_step", key, format!("{}: next({}).next({}) is not a valid instant", l.unit, a, b), rp),
        Err(m) => ctx.violation("linear_step", key, format!("{}: next({}).next({}) panics: {}", l.unit, a, b, m), rp),
      }
    }
  }
}

/// hour-level values on Jie days: a value stepped by a then b seconds must be *the same value* as the one built afresh
/// at the target instant (time and all four pillars), also when a step stays inside the day and crosses the Jie instant
fn check_hours_on_jie_days(ctx: &Ctx, civ: &Civil) {
  use crate::refmodel::terms::read_term;
  let alpha = sym(&[1, 3600, 7200, 25200, 86400]);
  let mut insts: Vec<i64> = Vec::new();
  for y in [1582isize, 2023, 2024, 9000] {
    for i in (1..24).step_by(2) {
      let t = read_term(civ, y, i);
      if t.inst == i64::MIN {
        continue;
      }
      let day0 = t.inst.div_euclid(86400) * 86400;
      for x in [day0 + 10, t.inst - 3600, t.inst - 1, t.inst, t.inst + 1, day0 + 82799] {
        insts.push(x);
      }
    }
  }
  let max = civ.len() as i64 * 86400 - 86401;
  let done = par_chunks(ctx, 0, insts.len(), 2, |x, y, loc| {
    for k in x..y {
      let o = insts[k];
      loc.states += 1;
      for &a in &alpha {
        for &b in &alpha {
          let (mid, t) = (o + a, o + a + b);
          if mid < 86400 * 40 || t < 86400 * 40 || mid > max || t > max {
            continue;
          }
          loc.transitions += 2;
          let r = guard(|| {
            let fresh = mk_time(civ, t);
            let sh = mk_time(civ, o).get_sixty_cycle_hour().next(a as isize).next(b as isize);
            let lh = mk_time(civ, o).get_lunar_hour();
            let _ = lh.get_sixty_cycle_hour();
            // LunarHour steps by double-hours: only steps that are multiples of 7200 s
            let lstep = if a % 7200 == 0 && b % 7200 == 0 { Some(lh.next((a / 7200) as isize).next((b / 7200) as isize)) } else { None };
            (
              format!("{} @ {}", sh, sh.get_solar_time()),
              format!("{} @ {}", fresh.get_sixty_cycle_hour(), fresh),
              lstep.map(|l| format!("{} {} @ {}", l.get_eight_char().get_name(), l.get_sixty_cycle_hour(), l.get_solar_time())),
              format!("{} {} @ {}", fresh.get_lunar_hour().get_eight_char().get_name(), fresh.get_sixty_cycle_hour(), fresh),
            )
          });
          let key = format!("hours {} a={:+} b={:+}", fmt_inst(civ, o), a, b);
          match r {
            Ok((got, want, lgot, lwant)) => {
              if got != want {
                ctx.violation("linear_step", format!("SixtyCycleHour {}", key), format!("SixtyCycleHour: next({}).next({}) = {}; the value built at the target instant is {}", a, b, got, want), vec!["jiehours".into()]);
              }
              if let Some(lg) = lgot {
                if lg != lwant {
                  ctx.violation("linear_step", format!("LunarHour {}", key), format!("LunarHour: next({}).next({}) = {}; the value built at the target instant is {}", a / 7200, b / 7200, lg, lwant), vec!["jiehours".into()]);
                }
              }
            }
            Err(m) => ctx.violation("linear_step", key, format!("panics: {}", m), vec!["jiehours".into()]),
          }
        }
      }
    }
  });
  ctx.subspace(&format!("hour-level values on the 48 Jie days of 1582, 2023, 2024, 9000: {} start instants (incl. the Jie instant +-1 s) x step pairs from {:?}: SixtyCycleHour / LunarHour stepped = built afresh at the target (time and all pillars)", insts.len(), alpha), done, insts.len() as u64);
}

/// weeks: w.next(a).next(b) starts 7 (a + b) days after w (group action on the first day); every week of the listed
/// years (leap months included) x 7 week starts x step pairs
fn check_weeks(ctx: &Ctx, civ: &Civil, lt: &crate::refmodel::lunar::LunTable) {
  use tyme4rs::tyme::lunar::LunarWeek;
  use tyme4rs::tyme::solar::SolarWeek;
  let alpha = sym(&[1, 2, 5, 9]);
  let ord_of = |s: &SolarDay| civ.ord(s.get_year() as i32, s.get_month() as u8, s.get_day() as u8).map(|o| o as i64);
  let n = civ.len() as i64;
  // lunar
  let mut luns: Vec<usize> = Vec::new();
  for y in [2isize, 30, 1437, 1582, 2020, 2023, 2025, 2305, 5552, 9990] {
    for i in lt.year_start[y as usize] as usize..lt.year_start[y as usize + 1] as usize {
      if lt.l[i].ok {
        luns.push(i);
      }
    }
  }
  let done = par_chunks(ctx, 0, luns.len() * 7, 1, |x, y, loc| {
    for u in x..y {
      let l = lt.l[luns[u / 7]];
      let start = u % 7;
      let wc = guard(|| LunarMonth::from_ym(l.y as isize, l.m as isize).get_week_count(start)).unwrap_or(0);
      for idx in 0..wc {
        loc.states += 1;
        let f = match guard(|| ord_of(&LunarWeek::from_ym(l.y as isize, l.m as isize, idx, start).get_first_day().get_solar_day())) {
          Ok(Some(f)) => f,
          _ => continue,
        };
        for &a in &alpha {
          for &b in &alpha {
            let (mid, t) = (f + 7 * a, f + 7 * (a + b));
            if mid < 800 || t < 800 || mid > n - 800 || t > n - 800 {
              continue;
            }
            loc.transitions += 1;
            let r = guard(|| ord_of(&LunarWeek::from_ym(l.y as isize, l.m as isize, idx, start).next(a as isize).next(b as isize).get_first_day().get_solar_day()));
            let key = format!("LunarWeek {} start={} idx={} a={:+} b={:+}", l.key(), start, idx, a, b);
            match r {
              Ok(Some(got)) if got == t => {}
              other => ctx.violation("linear_step", key, format!("LunarWeek: next({}).next({}) first day is {:?} days from the start, model {}", a, b, other.map(|o| o.map(|g| g - f)), 7 * (a + b)), vec!["weeks".into()]),
            }
          }
        }
      }
    }
  });
  ctx.subspace(&format!("linear unit LunarWeek: every week of {} lunations (10 lunar years incl. leap months) x 7 week starts x step pairs from {:?}", luns.len(), alpha), done, luns.len() as u64 * 7);
  // solar
  let mut months: Vec<(i32, u8)> = Vec::new();
  for y in [2i32, 1582, 2024, 9998] {
    for m in 1..=12u8 {
      months.push((y, m));
    }
  }
  let done = par_chunks(ctx, 0, months.len() * 7, 1, |x, y, loc| {
    for u in x..y {
      let (yy, mm) = months[u / 7];
      let start = u % 7;
      let wc = guard(|| SolarMonth::from_ym(yy as isize, mm as usize).get_week_count(start)).unwrap_or(0);
      for idx in 0..wc {
        loc.states += 1;
        let f = match guard(|| ord_of(&SolarWeek::from_ym(yy as isize, mm as usize, idx, start).get_first_day())) {
          Ok(Some(f)) => f,
          _ => continue,
        };
        for &a in &alpha {
          for &b in &alpha {
            let (mid, t) = (f + 7 * a, f + 7 * (a + b));
            if mid < 40 || t < 40 || mid > n - 40 || t > n - 40 {
              continue;
            }
            loc.transitions += 1;
            let r = guard(|| ord_of(&SolarWeek::from_ym(yy as isize, mm as usize, idx, start).next(a as isize).next(b as isize).get_first_day()));
            let key = format!("SolarWeek {}-{:02} start={} idx={} a={:+} b={:+}", yy, mm, start, idx, a, b);
            match r {
              Ok(Some(got)) if got == t => {}
              other => ctx.violation("linear_step", key, format!("SolarWeek: next({}).next({}) first day is {:?} days from the start, model {}", a, b, other.map(|o| o.map(|g| g - f)), 7 * (a + b)), vec!["weeks".into()]),
            }
          }
        }
      }
    }
  });
  ctx.subspace(&format!("linear unit SolarWeek: every week of {} months (years 2, 1582, 2024, 9998) x 7 week starts x step pairs from {:?}", months.len(), alpha), done, months.len() as u64 * 7);
}

/// Values taken out of a list are values too: every element of SixtyCycleMonth::get_days() stepped by 0, +-1, 7, -30
/// must be the sexagenary day built afresh from the civil date that many days away.
fn check_listed_sixty_days(ctx: &Ctx) {
  let years: Vec<isize> = if ctx.quick() { vec![2, 1582, 2024, 9998] } else { (2..=9998).step_by(37).chain([1582, 2024]).collect() };
  let steps = [0isize, 1, -1, 7, -30];
  let done = par_chunks(ctx, 0, years.len() * 12, 1, |a, b, loc| {
    for j in a..b {
      let (y, k) = (years[j / 12], (j % 12) as isize);
      let key = format!("{:04}/{:02}", y, k);
      let rp = vec!["listed60".to_string(), y.to_string(), k.to_string()];
      let r = guard(|| {
        let ds = SixtyCycleMonth::from_index(y, k).get_days();
        let base = ds[0].get_solar_day();
        let mut bad: Vec<String> = Vec::new();
        let mut n_ok = 0u64;
        for (i, x) in ds.iter().enumerate() {
          for n in steps {
            let got = x.next(n);
            let want = base.next(i as isize + n).get_sixty_cycle_day();
            if got.to_string() != want.to_string() || got.get_solar_day() != want.get_solar_day() || (n == 0 && got != *x) {
              if bad.len() < 3 {
                bad.push(format!("element #{} ({}, {}).next({}) = {} on {}; built afresh from the civil date: {} on {}", i, x, x.get_solar_day(), n, got, got.get_solar_day(), want, want.get_solar_day()));
              }
            } else {
              n_ok += 1;
            }
          }
        }
        (bad, n_ok)
      });
      loc.states += 1;
      match r {
        Ok((bad, n_ok)) => {
          loc.transitions += n_ok;
          if bad.is_empty() {
            loc.oc("listed_sixty_days_ok");
          } else {
            ctx.violation("listed_next", key, bad.join("; "), rp);
          }
        }
        Err(m) => ctx.violation("listed_next", key, format!("panics: {}", m), rp),
      }
    }
  });
  ctx.subspace(&format!("listed values: every element of SixtyCycleMonth::get_days() of {} Lichun-years x 12 months x steps {:?}: stepped element = sexagenary day built afresh from the civil date", years.len(), steps), done, years.len() as u64 * 12);
}

pub fn run(ctx: &Ctx) {
  let civ = Civil::build();
  ctx.assume("cyclic types: published name arrays (pub static *_NAMES) are the index<->name reference; their contents are judged by C19. Linear units: ordinal models (2*year+half, 4*year+quarter, 12*year+month-1, civil day ordinal, instant ordinal, 12*year+month index for sexagenary months incl. year -1); lunar months, terms, weeks, festivals are stepped exhaustively in C03, C06, C14, C20 (here: every week of 10 lunar years / 4 civil years)");
  let cs = cycles();
  let mut pool: Vec<String> = Vec::new();
  for c in &cs {
    for n in &c.names {
      if !pool.contains(n) {
        pool.push(n.clone());
      }
    }
  }
  let done = par_chunks(ctx, 0, cs.len(), 1, |a, b, l| {
    for i in a..b {
      check_cycle(ctx, &cs[i], &pool, l);
    }
  });
  ctx.subspace(&format!("{} cyclic types: every element x 23 step counts (incl. beyond 2^31 and 2^32) x all pairs; from_index over -2size..3size; from_name of every published name; every name of every other cycle ({} distinct names) + near misses refused", cs.len(), pool.len()), done, cs.len() as u64);
  let lt = crate::refmodel::lunar::LunTable::build(ctx, 0, 9999);
  let units = linear_units(&civ, &lt);
  let max_inst = civ.len() as i64 * 86400 - 86401;
  for (l, states, alpha) in &units {
    let scaled = l.unit.starts_with("LunarHour");
    // quick tier thins the big cheap unit spaces to boundary values + every 7th value
    let st: Vec<i64> = if ctx.quick() && states.len() > 30000 { states.iter().cloned().enumerate().filter(|(i, o)| i % 7 == 0 || *i < 40 || *i + 40 > states.len() || (*o >= 12 * 1582 && *o <= 12 * 1583)).map(|x| x.1).collect() } else { states.clone() };
    let done = par_chunks(ctx, 0, st.len(), 64, |a, b, loc| {
      for i in a..b {
        if scaled {
          check_lin_scaled(ctx, l, st[i], alpha, 7200, max_inst, loc);
        } else {
          check_lin(ctx, l, st[i], alpha, loc);
        }
      }
      loc.traces += 1;
    });
    ctx.subspace(&format!("linear unit {}: {} values x step pairs from {:?}", l.unit, st.len(), alpha), done, st.len() as u64);
  }
  check_weeks(ctx, &civ, &lt);
  check_hours_on_jie_days(ctx, &civ);
  check_listed_sixty_days(ctx);
  if ctx.primary() {
    for c in cs.iter().take(3) {
      let r = guard(|| (c.step2)(1, -(c.names.len() as isize) - 1, 1000003));
      ctx.sample(format!("{}: from_index(1).next(-size-1).next(1000003) = {:?}; model index {}", c.ty, r, (1 - c.names.len() as isize - 1 + 1000003).rem_euclid(c.names.len() as isize)));
    }
    let r = guard(|| SolarMonth::from_ym(1, 1).next(13).next(-12).to_string());
    ctx.sample(format!("SolarMonth(1,1).next(13).next(-12) = {:?}; model 1-02", r));
  }
}

pub fn replay(ctx: &Ctx, args: &[String]) {
  let civ = Civil::build();
  let mut l = Local::default();
  match args[0].as_str() {
    "cycle" => {
      let cs = cycles();
      let mut pool: Vec<String> = Vec::new();
      for c in &cs {
        for n in &c.names {
          if !pool.contains(n) {
            pool.push(n.clone());
          }
        }
      }
      let c = cs.iter().find(|c| c.ty == args[1]).expect("type");
      println!("replay C11 cyclic type {} (size {})", c.ty, c.names.len());
      check_cycle(ctx, c, &pool, &mut l);
    }
    "jiehours" => check_hours_on_jie_days(ctx, &civ),
    "listed60" => check_listed_sixty_days(ctx),
    "weeks" => {
      let lt = crate::refmodel::lunar::LunTable::build(ctx, 0, 9999);
      check_weeks(ctx, &civ, &lt);
    }
    _ => {
      let lt = crate::refmodel::lunar::LunTable::build(ctx, 0, 9999);
      let units = linear_units(&civ, &lt);
      let (u, _, _) = units.iter().find(|u| u.0.unit == args[1]).expect("unit");
      let n: Vec<i64> = args[2..].iter().filter_map(|a| a.parse().ok()).collect();
      println!("replay C11 unit {} value {} steps {} then {}", u.unit, (u.fmt)(n[0]), n[1], n[2]);
      if u.unit.starts_with("LunarHour") {
        check_lin_scaled(ctx, u, n[0], &[n[1], n[2]], 7200, civ.len() as i64 * 86400 - 86401, &mut l);
      } else {
        check_lin(ctx, u, n[0], &[n[1], n[2]], &mut l);
      }
    }
  }
  ctx.add(&l);
}
