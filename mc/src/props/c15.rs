//! C15 Term-anchored day series: Nines, Dog days, Plum rains, pentads, commanding stems.
//! State = civil date (years 2..9998); oracle re-derives every series from the term-day table and the
//! (JDN+49) mod 60 day pillar only.

use crate::engine::*;
use crate::props::c01::mk;
use crate::refmodel::civil::*;
use crate::refmodel::pillar::*;
use crate::refmodel::terms::*;
use tyme4rs::tyme::enums::HideHeavenStemType;
use tyme4rs::tyme::Culture;

/// classical 人元司令分野 allotment per month branch, typed by name: (stem, days); the last entry takes the rest
fn allotment(branch: &str) -> Vec<(&'static str, usize)> {
  match branch {
    "子" => vec![("壬", 10), ("癸", 20)],
    "丑" => vec![("癸", 9), ("辛", 3), ("己", 18)],
    "寅" => vec![("戊", 7), ("丙", 7), ("甲", 16)],
    "卯" => vec![("甲", 10), ("乙", 20)],
    "辰" => vec![("乙", 9), ("癸", 3), ("戊", 18)],
    "巳" => vec![("戊", 5), ("庚", 9), ("丙", 16)],
    "午" => vec![("丙", 10), ("己", 9), ("丁", 11)],
    "未" => vec![("丁", 9), ("乙", 3), ("己", 18)],
    "申" => vec![("戊", 10), ("壬", 3), ("庚", 17)],
    "酉" => vec![("庚", 10), ("辛", 20)],
    "戌" => vec![("辛", 9), ("丁", 3), ("戊", 18)],
    "亥" => vec![("戊", 7), ("甲", 5), ("壬", 18)],
    _ => panic!("branch"),
  }
}

fn stem_of_day(civ: &Civil, ord: usize) -> usize {
  (day_pillar(civ.jdn(ord)) % 10) as usize
}

fn branch_of_day(civ: &Civil, ord: usize) -> usize {
  (day_pillar(civ.jdn(ord)) % 12) as usize
}

/// first day >= ord whose stem is s
fn next_stem(civ: &Civil, ord: usize, s: usize) -> usize {
  ord + (s + 10 - stem_of_day(civ, ord)) % 10
}

fn next_branch(civ: &Civil, ord: usize, b: usize) -> usize {
  ord + (b + 12 - branch_of_day(civ, ord)) % 12
}

#[derive(Debug, PartialEq, Clone)]
struct Series {
  nine: Option<(usize, usize)>,
  dog: Option<(usize, usize)>,
  plum: Option<(usize, usize)>,
  pentad: (usize, usize),
  hide: (String, &'static str, usize),
}

fn model(civ: &Civil, tm: &Terms, ord: usize) -> Option<Series> {
  let y = civ.date(ord).0 as isize;
  let day = |yy: isize, i: isize| tm.get(yy, i).day as usize;
  // Nines: 81 days from each winter-solstice day
  let mut nine = None;
  for yy in [y, y + 1] {
    let s = day(yy, 0);
    if ord >= s && ord < s + 81 {
      nine = Some(((ord - s) / 9, (ord - s) % 9));
    }
  }
  // Dog days
  let xia = day(y, 12);
  let first = next_stem(civ, xia, 6) + 20; // third Geng day on or after the summer-solstice day
  let liqiu = day(y, 15);
  let fifth = first + 20;
  let mid_len = if fifth < liqiu { 20 } else { 10 };
  let dog = if ord >= first && ord < first + 10 {
    Some((0, ord - first))
  } else if ord >= first + 10 && ord < first + 10 + mid_len {
    Some((1, ord - first - 10))
  } else if ord >= first + 10 + mid_len && ord < first + 20 + mid_len {
    Some((2, ord - first - 10 - mid_len))
  } else {
    None
  };
  // Plum rains: first Bing day on/after Grain in Ear .. first Wei day on/after Slight Heat (that day = exit day 0)
  let enter = next_stem(civ, day(y, 11), 2);
  let exit = next_branch(civ, day(y, 13), 7);
  let plum = if ord >= enter && ord < exit {
    Some((0, ord - enter))
  } else if ord == exit {
    Some((1, 0))
  } else {
    None
  };
  // pentad and commanding stem from the governing term
  let g = tm.g_of_day(ord)?;
  let d = ord - tm.t[g].day as usize;
  let k = (d / 5).min(2);
  let pentad = ((g % 24) * 3 + k, d - 5 * k);
  let gj = if g % 2 == 1 { g } else { g - 1 };
  let dj = ord - tm.t[gj].day as usize;
  // month branch of the Jie: 立春(3) -> 寅(2), 小寒(1) -> 丑(1), 大雪(23) -> 子(0)
  let i = gj % 24;
  let br = BRANCHES[((i - 1) / 2 + 1) % 12];
  let al = allotment(br);
  let mut start = 0usize;
  let mut hide = None;
  for (n, (stem, days)) in al.iter().enumerate() {
    let last = n + 1 == al.len();
    if last || dj < start + days {
      let ty = if last { "本气" } else if n == 0 { "余气" } else { "中气" };
      hide = Some((stem.to_string(), ty, dj - start));
      break;
    }
    start += days;
  }
  Some(Series { nine, dog, plum, pentad, hide: hide.unwrap() })
}

fn type_name(t: HideHeavenStemType) -> &'static str {
  match t {
    HideHeavenStemType::RESIDUAL => "余气",
    HideHeavenStemType::MIDDLE => "中气",
    HideHeavenStemType::MAIN => "本气",
  }
}

fn check_day(ctx: &Ctx, civ: &Civil, tm: &Terms, ord: usize, loc: &mut Local) {
  let d = civ.date(ord);
  let want = match model(civ, tm, ord) {
    Some(w) => w,
    None => return,
  };
  loc.states += 1;
  loc.transitions += 5;
  if want.nine.is_some() || want.dog.is_some() || want.plum.is_some() || want.pentad.1 == 0 || want.hide.2 == 0 {
    loc.nontrivial += 1;
  }
  if let Some((1, k)) = want.dog {
    if k >= 10 {
      loc.oc("middle Dog days 11-20 (20-day middle)");
    }
  }
  let rp = vec!["day".to_string(), d.0.to_string(), d.1.to_string(), d.2.to_string()];
  macro_rules! obs {
    ($name:expr, $e:expr, $want:expr, $fmtw:expr) => {
      match guard(|| $e) {
        Ok(got) => {
          if got != $want {
            ctx.violation($name, fmt_ymd(d), format!("impl {:?}, model {:?} ({})", got, $want, $fmtw), rp.clone());
          }
        }
        Err(m) => ctx.violation($name, fmt_ymd(d), format!("panics: {}; model {:?}", m, $want), rp.clone()),
      }
    };
  }
  obs!("nine", mk(d).get_nine_day().map(|n| (n.get_nine().get_index(), n.get_day_index())), want.nine, "(nine index, day index) counted from the winter-solstice day");
  obs!("dog", mk(d).get_dog_day().map(|n| (n.get_dog().get_index(), n.get_day_index())), want.dog, "(period, day index) from the third Geng day on/after the summer solstice; middle period 20 days iff the fifth Geng day precedes the Liqiu day");
  obs!("plum_rain", mk(d).get_plum_rain_day().map(|n| (n.get_plum_rain().get_index(), n.get_day_index())), want.plum, "(0 = in the rains / 1 = exit day, day index): first Bing day on/after Mangzhong .. first Wei day on/after Xiaoshu");
  obs!(
    "pentad",
    {
      let p = mk(d).get_phenology_day();
      (p.get_phenology().get_index(), p.get_day_index(), p.get_phenology().get_three_phenology().get_index())
    },
    (want.pentad.0, want.pentad.1, want.pentad.0 % 3),
    "(pentad 3*term + min(day/5, 2), inner index, position in term)"
  );
  obs!(
    "commanding_stem",
    {
      let h = mk(d).get_hide_heaven_stem_day();
      (h.get_hide_heaven_stem().get_heaven_stem().get_name(), type_name(h.get_hide_heaven_stem().get_type()), h.get_day_index())
    },
    want.hide.clone(),
    "(stem, kind, day index inside the allotment) counted from the month's Jie day, classical allotment table"
  );
  if d.1 == 1 && d.2 == 1 {
    loc.traces += 1;
  }
}

pub fn run(ctx: &Ctx) {
  let civ = Civil::build();
  let tm = Terms::build(ctx, &civ);
  ctx.assume("term days are the library's own (C05/C06); day pillar (JDN+49) mod 60; the commanding-stem allotment table is typed by name from the classical 人元司令分野 list (子 壬10 癸20; 丑 癸9 辛3 己18; 寅 戊7 丙7 甲16; 卯 甲10 乙20; 辰 乙9 癸3 戊18; 巳 戊5 庚9 丙16; 午 丙10 己9 丁11; 未 丁9 乙3 己18; 申 戊10 壬3 庚17; 酉 庚10 辛20; 戌 辛9 丁3 戊18; 亥 戊7 甲5 壬18), the last stem taking the rest of the month");
  let years = years_for(ctx, 2, 9998);
  let mut runs: Vec<(usize, usize)> = Vec::new();
  let mut n = 0u64;
  for &y in &years {
    let (a, b) = civ.year_range(y as i32, y as i32);
    n += (b - a) as u64;
    if let Some(last) = runs.last_mut() {
      if last.1 == a {
        last.1 = b;
        continue;
      }
    }
    runs.push((a, b));
  }
  let mut done = true;
  for (a, b) in runs {
    done &= par_chunks(ctx, a, b, 512, |x, y, l| {
      for o in x..y {
        check_day(ctx, &civ, &tm, o, l);
      }
    });
  }
  ctx.subspace(&format!("civil dates of {} years ({} dates) x 5 series (Nines, Dog days, Plum rains, pentads, commanding stems)", years.len(), n), done, n);
  if ctx.quick() {
    // every year 2..9998: the days on which a Nine / Dog-day / Plum-rain period starts, changes or ends according to the
    // model, and the day before each (where a mis-anchored series shows), so that years outside the windows are not blind
    let (a, b) = civ.year_range(2, 9998);
    let done = par_chunks(ctx, a, b, 4096, |x, y, l| {
      let mut prev: Option<Series> = if x > 0 { model(&civ, &tm, x - 1) } else { None };
      for o in x..y {
        let cur = model(&civ, &tm, o);
        if let (Some(p), Some(c)) = (&prev, &cur) {
          let ph = |v: &Option<(usize, usize)>| v.map(|t| t.0 as i64).unwrap_or(-1);
          if p.nine.is_some() != c.nine.is_some() || ph(&p.dog) != ph(&c.dog) || ph(&p.plum) != ph(&c.plum) {
            check_day(ctx, &civ, &tm, o - 1, l);
            check_day(ctx, &civ, &tm, o, l);
          }
        }
        prev = cur;
      }
    });
    ctx.subspace("every year 2..9998: each day on which the Nines start or end or the model's Dog-day / Plum-rain phase changes, and the day before it, x 5 series", done, 9997);
  }
  if ctx.primary() {
    for d in [(2024, 2, 11), (2024, 7, 15), (2024, 6, 11), (2023, 12, 22)] {
      let o = civ.ord(d.0, d.1, d.2).unwrap();
      ctx.sample(format!("{}: model {:?}", fmt_ymd(d), model(&civ, &tm, o)));
    }
  }
}

pub fn replay(ctx: &Ctx, args: &[String]) {
  let civ = Civil::build();
  let n: Vec<i64> = args[1..].iter().filter_map(|a| a.parse().ok()).collect();
  let y = n[0] as usize;
  let tm = Terms::build_range(ctx, &civ, y.saturating_sub(1), (y + 1).min(10000));
  let o = civ.ord(n[0] as i32, n[1] as u8, n[2] as u8).unwrap();
  println!("replay C15 {}: model {:?}", fmt_ymd(civ.date(o)), model(&civ, &tm, o));
  let mut l = Local::default();
  check_day(ctx, &civ, &tm, o, &mut l);
  ctx.add(&l);
}
