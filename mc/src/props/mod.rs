pub mod c01;
