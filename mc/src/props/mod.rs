pub mod c01;
pub mod c10;
