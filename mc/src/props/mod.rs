pub mod c01;
pub mod c02;
pub mod c03;
pub mod c04;
pub mod c06;
pub mod c07;
pub mod c08;
pub mod c10;
