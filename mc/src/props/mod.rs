pub mod c01;
pub mod c02;
pub mod c03;
pub mod c04;
pub mod c10;
