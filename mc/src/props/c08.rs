//! C08 Year pillar turns at Lichun, month pillar at each Jie, by the Five-Tigers rule.
//! Day view: state = civil date; time view: state = instant. Oracle = the library's own term table
//! (Jie days / instants) + pillar algebra from the classical rhymes.

use crate::engine::*;
use crate::props::c01::{mk, ymd_of};
use crate::refmodel::civil::*;
use crate::refmodel::pillar::*;
use crate::refmodel::terms::*;
use tyme4rs::tyme::sixtycycle::{SixtyCycleDay, SixtyCycleMonth, SixtyCycleYear};
use tyme4rs::tyme::solar::SolarTime;
use tyme4rs::tyme::{Culture, Tyme};

/// from the latest term g: (Lichun year Y, month number k counted from 寅, g of the governing Jie)
pub fn ym_of_g(g: usize) -> (i64, usize, usize) {
  let gj = if g % 2 == 1 { g } else { g - 1 };
  let y = (gj / 24) as i64;
  let i = gj % 24;
  if i >= 3 {
    (y, (i - 3) / 2, gj)
  } else {
    (y - 1, 11, gj) // 小寒: 丑 month of the previous Lichun year
  }
}

fn check_day(ctx: &Ctx, civ: &Civil, tm: &Terms, ord: usize, routes: bool, steps: bool, loc: &mut Local) {
  let d = civ.date(ord);
  let g = match tm.g_of_day(ord) {
    Some(g) => g,
    None => return,
  };
  let (y, k, gj) = ym_of_g(g);
  if y < 0 {
    return; // before the Xiaohan day of year 1 (the governing Jie lies in 1 BC)
  }
  loc.states += 1;
  loc.transitions += 3;
  let want_y = pillar_name(year_pillar(y));
  let want_m = month_pillar(y, k);
  let jie_day = tm.t[gj].day as usize == ord;
  if jie_day {
    loc.nontrivial += 1;
    loc.oc(if gj % 24 == 3 { "Lichun day" } else { "other Jie day" });
  }
  let rp = vec!["day".to_string(), d.0.to_string(), d.1.to_string(), d.2.to_string()];
  let r = guard(|| {
    let scd = mk(d).get_sixty_cycle_day();
    let m = scd.get_sixty_cycle_month();
    (scd.get_year().get_name(), scd.get_month().get_name(), m.get_index_in_year(), m.get_sixty_cycle_year().get_year())
  });
  match r {
    Ok((py, pm, idx, yy)) => {
      if py != want_y || yy as i64 != y {
        ctx.violation("year_pillar", fmt_ymd(d), format!("year pillar {} (sexagenary year {}), model {} (Lichun year {}; Lichun day of {} is {})", py, yy, want_y, y, d.0, fmt_ymd(civ.date(tm.get(d.0 as isize, 3).day as usize))), rp.clone());
      }
      if pm != want_m || idx != k {
        ctx.violation("month_pillar", fmt_ymd(d), format!("month pillar {} (index in year {}), model {} (month {} from 寅; governing Jie {} on {})", pm, idx, want_m, k, TERM_NAMES[gj % 24], fmt_ymd(civ.date(tm.t[gj].day as usize))), rp.clone());
      }
      // legal pair: month stem fixed by year stem
      if pillar_idx(&pm).is_none() || pillar_idx(&py).is_none() {
        ctx.violation("month_pillar", fmt_ymd(d), format!("not a sexagenary pillar: year {} month {}", py, pm), rp.clone());
      }
    }
    Err(m) => ctx.violation("month_pillar", fmt_ymd(d), format!("get_sixty_cycle_day panics: {}", m), rp.clone()),
  }
  // the other public routes to the same two pillars must agree with the model too
  if routes {
    loc.transitions += 3;
    #[allow(deprecated)]
    let r = guard(|| {
      let sd = mk(d);
      let a = SixtyCycleDay::from_solar_day(sd);
      let ld = sd.get_lunar_day();
      let b = ld.get_sixty_cycle_day();
      vec![
        ("SixtyCycleDay::from_solar_day", a.get_year().get_name(), a.get_month().get_name()),
        ("LunarDay::get_sixty_cycle_day", b.get_year().get_name(), b.get_month().get_name()),
        ("LunarDay::get_year_sixty_cycle / get_month_sixty_cycle", ld.get_year_sixty_cycle().get_name(), ld.get_month_sixty_cycle().get_name()),
      ]
    });
    match r {
      Ok(v) => {
        for (route, py, pm) in v {
          if py != want_y || pm != want_m {
            ctx.violation("route", format!("{} {}", fmt_ymd(d), route), format!("{}: year pillar {} month pillar {}; model {} {}", route, py, pm, want_y, want_m), rp.clone());
          }
        }
      }
      Err(m) => ctx.violation("route", fmt_ymd(d), format!("alternative routes panic: {}", m), rp.clone()),
    }
  }
  // on Jie days: the sexagenary month object and its neighbours are consistent with the Jie days
  if jie_day && y < 9998 {
    loc.transitions += 3;
    let r = guard(|| {
      let m = mk(d).get_sixty_cycle_day().get_sixty_cycle_month();
      let f = ymd_of(&m.get_first_day().get_solar_day());
      let n = m.next(1);
      let nf = ymd_of(&n.get_first_day().get_solar_day());
      let p = m.next(-1);
      let pf = if gj >= 28 { Some(ymd_of(&p.get_first_day().get_solar_day())) } else { None };
      (f, nf, pf, n.get_sixty_cycle().get_name(), n.get_sixty_cycle_year().get_year())
    });
    match r {
      Ok((f, nf, pf, nname, nyear)) => {
        let wn = civ.date(tm.t[gj + 2].day as usize);
        let (ny, nk, _) = ym_of_g(gj + 2);
        if f != d || nf != wn || nname != month_pillar(ny, nk) || nyear as i64 != ny {
          ctx.violation("month_object", fmt_ymd(d), format!("month first day {} (model {}), next month {} of year {} first day {} (model {} of year {} first day {})", fmt_ymd(f), fmt_ymd(d), nname, nyear, fmt_ymd(nf), month_pillar(ny, nk), ny, fmt_ymd(wn)), rp.clone());
        }
        if let Some(pf) = pf {
          let wp = civ.date(tm.t[gj - 2].day as usize);
          if pf != wp {
            ctx.violation("month_object", fmt_ymd(d), format!("previous month first day {} (model {})", fmt_ymd(pf), fmt_ymd(wp)), rp.clone());
          }
        }
      }
      Err(m) => ctx.violation("month_object", fmt_ymd(d), format!("panics: {}", m), rp.clone()),
    }
  }
  // the 12 hour slots listed by the sexagenary day of a Jie day: each carries the year / month pillar of its own instant
  // (not on the very first Jie day of the range: its late-Zi slot lies before the first term of year 1)
  if jie_day && routes && ord > 1 && tm.g_of_inst(ord as i64 * 86400 - 3600).map(|g| g >= 25).unwrap_or(false) {
    loc.transitions += 12;
    let r = guard(|| mk(d).get_sixty_cycle_day().get_hours().iter().map(|h| (h.get_year().get_name(), h.get_month().get_name())).collect::<Vec<_>>());
    match r {
      Ok(v) => {
        for (slot, (py, pm)) in v.iter().enumerate() {
          let t = ord as i64 * 86400 - 3600 + slot as i64 * 7200;
          if let Some(g2) = tm.g_of_inst(t) {
            let (y2, k2, _) = ym_of_g(g2);
            if y2 >= 0 && (*py != pillar_name(year_pillar(y2)) || *pm != month_pillar(y2, k2)) {
              ctx.violation("route", format!("{} get_hours[{}]", fmt_ymd(d), slot), format!("slot {} of SixtyCycleDay::get_hours: year {} month {}; model at its instant {} {}", slot, py, pm, pillar_name(year_pillar(y2)), month_pillar(y2, k2)), rp.clone());
            }
          }
        }
      }
      Err(m) => ctx.violation("route", format!("{} get_hours", fmt_ymd(d)), format!("panics: {}", m), rp.clone()),
    }
  }
  // stepping the month object by n: (year, index) moves like 12 * year + index, pillar and first day follow
  if steps && jie_day && y >= 2 && y < 9998 {
    let base = 12 * y + k as i64;
    for n in [2i64, -2, 11, -11, 12, -12, 13, -13, 24, -24, 25, -(k as i64) - 12, -(k as i64) - 24, -(k as i64) - 36, 12 - k as i64, 60, -60, 1237, -1237] {
      let t = base + n;
      let (ny, nk) = (t.div_euclid(12), t.rem_euclid(12) as usize);
      if ny < 2 || ny > 9997 {
        continue;
      }
      loc.transitions += 1;
      let r = guard(|| {
        let m = mk(d).get_sixty_cycle_day().get_sixty_cycle_month().next(n as isize);
        (m.get_sixty_cycle().get_name(), m.get_sixty_cycle_year().get_year(), m.get_index_in_year(), ymd_of(&m.get_first_day().get_solar_day()))
      });
      let key = format!("{} n={:+}", fmt_ymd(d), n);
      let wf = civ.date(tm.t[(24 * ny + 3 + 2 * nk as i64) as usize].day as usize);
      match r {
        Ok((name, yy, idx, f)) => {
          if name != month_pillar(ny, nk) || yy as i64 != ny || idx != nk || f != wf {
            ctx.violation("month_next", key, format!("month {} of year {} stepped by {}: {} (index {}) of year {} first day {}; model {} (index {}) of year {} first day {}", k, y, n, name, idx, yy, fmt_ymd(f), month_pillar(ny, nk), nk, ny, fmt_ymd(wf)), rp.clone());
          }
        }
        Err(m) => ctx.violation("month_next", key, format!("panics: {}", m), rp.clone()),
      }
    }
  }
  if d.1 == 1 && d.2 == 1 {
    loc.traces += 1;
  }
}

fn check_inst(ctx: &Ctx, civ: &Civil, tm: &Terms, inst: i64, routes: bool, loc: &mut Local) {
  let o = inst.div_euclid(86400);
  if o < 0 || o as usize >= civ.len() {
    return;
  }
  let d = civ.date(o as usize);
  let s = inst.rem_euclid(86400);
  let g = match tm.g_of_inst(inst) {
    Some(g) => g,
    None => return,
  };
  let (y, k, _) = ym_of_g(g);
  if y < 0 || d.0 > 9998 {
    return;
  }
  loc.transitions += 2;
  let want_y = pillar_name(year_pillar(y));
  let want_m = month_pillar(y, k);
  let r = guard(|| {
    let h = SolarTime::from_ymd_hms(d.0 as isize, d.1 as usize, d.2 as usize, (s / 3600) as usize, (s / 60 % 60) as usize, (s % 60) as usize).get_sixty_cycle_hour();
    (h.get_year().get_name(), h.get_month().get_name())
  });
  let key = format!("{} {:02}:{:02}:{:02}", fmt_ymd(d), s / 3600, s / 60 % 60, s % 60);
  let rp = vec!["inst".to_string(), inst.to_string()];
  // the lunar-hour routes (incl. the deprecated getters) must agree
  #[allow(deprecated)]
  let r2 = if !routes { Err(String::new()) } else { guard(|| {
    let lh = SolarTime::from_ymd_hms(d.0 as isize, d.1 as usize, d.2 as usize, (s / 3600) as usize, (s / 60 % 60) as usize, (s % 60) as usize).get_lunar_hour();
    let h = lh.get_sixty_cycle_hour();
    (h.get_year().get_name(), h.get_month().get_name(), lh.get_year_sixty_cycle().get_name(), lh.get_month_sixty_cycle().get_name())
  }) };
  match if routes { r2 } else { Ok((want_y.clone(), want_m.clone(), want_y.clone(), want_m.clone())) } {
    Ok((py, pm, py2, pm2)) => {
      if py != want_y || pm != want_m || py2 != want_y || pm2 != want_m {
        ctx.violation("route", format!("{} LunarHour", key), format!("LunarHour::get_sixty_cycle_hour year {} month {}; LunarHour::get_year_sixty_cycle {} get_month_sixty_cycle {}; model {} {}", py, pm, py2, pm2, want_y, want_m), rp.clone());
      }
    }
    Err(m) => ctx.violation("route", format!("{} LunarHour", key), format!("lunar-hour routes panic: {}", m), rp.clone()),
  }
  match r {
    Ok((py, pm)) => {
      if py != want_y {
        ctx.violation("time_year_pillar", key.clone(), format!("year pillar {} model {} (Lichun year {})", py, want_y, y), rp.clone());
      }
      if pm != want_m {
        ctx.violation("time_month_pillar", key, format!("month pillar {} model {} (month {} from 寅 of year {})", pm, want_m, k, y), rp);
      }
    }
    Err(m) => ctx.violation("time_month_pillar", key, format!("panics: {}", m), rp),
  }
}

fn check_year_obj(ctx: &Ctx, y: isize, loc: &mut Local) {
  loc.transitions += 2;
  let r = guard(|| {
    let sy = SixtyCycleYear::from_year(y);
    let ms = sy.get_months();
    (sy.get_sixty_cycle().get_name(), sy.get_first_month().get_sixty_cycle().get_name(), ms.iter().map(|m| m.get_sixty_cycle().get_name()).collect::<Vec<_>>(), ms.iter().map(|m| m.get_sixty_cycle_year().get_year()).collect::<Vec<_>>(), (0..12).map(|i| SixtyCycleMonth::from_index(y, i).get_sixty_cycle().get_name()).collect::<Vec<_>>())
  });
  let key = format!("{:05}", y);
  let rp = vec!["year".to_string(), y.to_string()];
  match r {
    Ok((py, first, ms, ys, byidx)) => {
      let want: Vec<String> = (0..12).map(|k| month_pillar(y as i64, k)).collect();
      if py != pillar_name(year_pillar(y as i64)) || first != want[0] || ms != want || byidx != want || ys.iter().any(|x| *x != y) {
        ctx.violation("year_object", key.clone(), format!("SixtyCycleYear({}): pillar {} first month {} months {:?} (years {:?}); model pillar {} months {:?}", y, py, first, ms, ys, pillar_name(year_pillar(y as i64)), want), rp.clone());
      }
    }
    Err(m) => ctx.violation("year_object", key.clone(), format!("panics: {}", m), rp.clone()),
  }
  // an index outside 0..=11 carries into the neighbouring years
  if y >= 3 && y <= 9996 {
    for i in [-13i64, -12, -1, 12, 13, 24, 25] {
      loc.transitions += 1;
      let t = 12 * y as i64 + i;
      let (ny, nk) = (t.div_euclid(12), t.rem_euclid(12) as usize);
      let r = guard(|| {
        let m = SixtyCycleMonth::from_index(y, i as isize);
        (m.get_sixty_cycle().get_name(), m.get_sixty_cycle_year().get_year(), m.get_index_in_year())
      });
      match r {
        Ok((name, yy, idx)) => {
          if name != month_pillar(ny, nk) || yy as i64 != ny || idx != nk {
            ctx.violation("year_object", format!("{} i={:+}", key, i), format!("SixtyCycleMonth::from_index({}, {}) = {} (index {}) of year {}; model {} (index {}) of year {}", y, i, name, idx, yy, month_pillar(ny, nk), nk, ny), rp.clone());
          }
        }
        Err(m) => ctx.violation("year_object", format!("{} i={:+}", key, i), format!("SixtyCycleMonth::from_index({}, {}) panics: {}", y, i, m), rp.clone()),
      }
    }
  }
}

pub fn run(ctx: &Ctx) {
  let civ = Civil::build();
  let tm = Terms::build(ctx, &civ);
  ctx.assume("Jie days / instants are the library's own (term table, judged in C05/C06); Five-Tigers rule typed from the rhyme; day view covers the Lichun day of year 1 .. 9998-12-31");
  // year objects (all years -1..9999)
  let done = par_chunks(ctx, 0, 10001, 100, |a, b, l| {
    for y in a..b {
      check_year_obj(ctx, y as isize - 1, l);
    }
  });
  ctx.subspace("sexagenary years -1..9999: year pillar, first month, 12 months by list and by index, and by 7 indexes outside 0..=11", done, 10001);
  let years = years_for(ctx, 1, 9998);
  let mut runs: Vec<(usize, usize)> = Vec::new();
  let mut n = 0u64;
  for &y in &years {
    let (a, b) = civ.year_range(y as i32, y as i32);
    n += (b - a) as u64;
    if let Some(last) = runs.last_mut() {
      if last.1 == a {
        last.1 = b;
        continue;
      }
    }
    runs.push((a, b));
  }
  let mut done = true;
  for (a, b) in runs {
    done &= par_chunks(ctx, a, b, 1024, |x, y, l| {
      for o in x..y {
        check_day(ctx, &civ, &tm, o, !ctx.quick() || o % 3 == 0, !ctx.quick(), l);
      }
    });
  }
  ctx.subspace(&format!("day view: civil dates of {} years ({} dates): year pillar, month pillar, index in year (+ three other public routes{}); month objects on every Jie day{}", years.len(), n, if ctx.quick() { " on every third date" } else { "" }, if ctx.quick() { "" } else { ", each stepped by 19 step counts incl. negative multiples of 12" }), done, n);
  if ctx.quick() {
    // every Jie day of years 1..9998 and the day before it (where both pillars turn), all routes
    let done = par_chunks(ctx, 25, 24 * 9999, 500, |a, b, l| {
      for g in a..b {
        if g % 2 == 0 || tm.t[g].day == u32::MAX {
          continue;
        }
        let o = tm.t[g].day as usize;
        if o >= 1 && o < civ.len() && civ.date(o).0 <= 9998 {
          check_day(ctx, &civ, &tm, o - 1, true, false, l);
          check_day(ctx, &civ, &tm, o, true, g % 16 == 3, l);
        }
      }
    });
    ctx.subspace("day view: every Jie day of years 1..9998 and the day before it (all routes; the month object of every 8th Jie stepped by 19 step counts incl. negative multiples of 12)", done, 12 * 9998 * 2);
  }
  // time view: every Jie of years 1..9998 at -1 s, +0, +1 s
  let done = par_chunks(ctx, 25, 24 * 9999, 500, |a, b, l| {
    for g in a..b {
      if g % 2 == 0 {
        continue;
      }
      let t = tm.t[g];
      if t.inst == i64::MIN {
        continue;
      }
      l.states += 1;
      l.nontrivial += 1;
      for dt in [-1i64, 0, 1] {
        check_inst(ctx, &civ, &tm, t.inst + dt, true, l);
      }
    }
  });
  ctx.subspace("time view: every Jie instant of years 1..9998 at -1 s, +0, +1 s (direct and LunarHour routes)", done, 12 * 9998 * 3);
  let w = quick_windows(ctx.seed);
  let mut done = true;
  let mut ni = 0u64;
  for &(ya, yb) in &w {
    let (a, b) = civ.year_range(ya as i32, (yb as i32).min(9998));
    ni += 4 * (b - a) as u64;
    done &= par_chunks(ctx, a, b, 512, |x, y, l| {
      for o in x..y {
        for h in [0i64, 12, 22, 23] {
          check_inst(ctx, &civ, &tm, o as i64 * 86400 + h * 3600 + 1799, !ctx.quick() || o % 7 == 0, l);
        }
      }
    });
  }
  ctx.subspace(&format!("time view: hours 0, 12, 22, 23 (at hh:29:59) of every date of the windows W (LunarHour routes{})", if ctx.quick() { " on every 7th date" } else { "" }), done, ni);
  for d in [(2024, 2, 3), (2024, 2, 4), (1500, 1, 31), (9998, 12, 31)] {
    let o = civ.ord(d.0, d.1, d.2).unwrap();
    if let Some(g) = tm.g_of_day(o) {
      let (y, k, gj) = ym_of_g(g);
      let got = guard(|| {
        let s = mk(d).get_sixty_cycle_day();
        format!("{} {}", s.get_year().get_name(), s.get_month().get_name())
      });
      ctx.sample(format!("{}: impl {:?}; model year {} ({}), month {} ({} from 寅, Jie {})", fmt_ymd(d), got, pillar_name(year_pillar(y)), y, month_pillar(y, k), k, TERM_NAMES[gj % 24]));
    }
  }
}

pub fn replay(ctx: &Ctx, args: &[String]) {
  let civ = Civil::build();
  let n: Vec<i64> = args[1..].iter().filter_map(|a| a.parse().ok()).collect();
  let mut l = Local::default();
  match args[0].as_str() {
    "day" => {
      let y = n[0] as usize;
      let tm = Terms::build_range(ctx, &civ, y.saturating_sub(1), (y + 1).min(10000));
      let o = civ.ord(n[0] as i32, n[1] as u8, n[2] as u8).unwrap();
      println!("replay C08 day {}: model {:?}", fmt_ymd(civ.date(o)), tm.g_of_day(o).map(|g| ym_of_g(g)));
      check_day(ctx, &civ, &tm, o, true, true, &mut l);
    }
    "inst" => {
      let y = civ.date((n[0] / 86400) as usize).0 as usize;
      let tm = Terms::build_range(ctx, &civ, y.saturating_sub(1), (y + 1).min(10000));
      println!("replay C08 instant {}: model {:?}", n[0], tm.g_of_inst(n[0]).map(|g| ym_of_g(g)));
      check_inst(ctx, &civ, &tm, n[0], true, &mut l);
    }
    _ => check_year_obj(ctx, n[0] as isize, &mut l),
  }
  ctx.add(&l);
}
