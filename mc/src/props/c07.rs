//! C07 Day pillar and weekday advance one step per civil day from fixed anchors.
//! State = civil date (all), transition = next civil day (implicit: both observers are compared with
//! closed forms of the day number, so adjacency is covered for every pair, incl. month/year ends, the 1582
//! cut-over and every lunar month boundary); every route to the pillar / weekday is observed.

use crate::engine::*;
use crate::props::c01::{mk, ymd_of};
use crate::refmodel::civil::*;
use crate::refmodel::pillar::*;
use crate::refmodel::terms::*;
use tyme4rs::tyme::jd::JulianDay;
use tyme4rs::tyme::sixtycycle::SixtyCycleDay;
use tyme4rs::tyme::{Culture, Tyme};

fn check_day(ctx: &Ctx, civ: &Civil, ord: usize, first_term_day: usize, loc: &mut Local) {
  let d = civ.date(ord);
  let jdn = civ.jdn(ord);
  let want_p = pillar_name(day_pillar(jdn));
  let want_w = weekday(jdn) as usize;
  loc.states += 1;
  loc.transitions += 5;
  let rp = vec!["day".to_string(), d.0.to_string(), d.1.to_string(), d.2.to_string()];
  let r = guard(|| {
    let sd = mk(d);
    let ld = sd.get_lunar_day();
    let first = ld.get_day() == 1;
    (ld.get_sixty_cycle().get_name(), sd.get_week().get_index(), JulianDay::from_julian_day(JD0 + ord as f64).get_week().get_index(), ld.get_week().get_index(), first)
  });
  let mut start_bad = false;
  match r {
    Ok((p, w1, w2, w3, first)) => {
      start_bad = p != want_p || w3 != want_w;
      if first || d.2 == 1 || (d.0 == 1582 && d.1 == 10) {
        loc.nontrivial += 1;
      }
      if p != want_p {
        ctx.violation("pillar_lunar", fmt_ymd(d), format!("LunarDay::get_sixty_cycle = {}, model (JDN {} + 49) mod 60 = {}", p, jdn, want_p), rp.clone());
      }
      if w1 != want_w || w2 != want_w || w3 != want_w {
        ctx.violation("weekday", fmt_ymd(d), format!("SolarDay::get_week={} JulianDay::get_week={} LunarDay::get_week={}, model (JDN {} + 1) mod 7 = {}", w1, w2, w3, jdn, want_w), rp.clone());
      }
    }
    Err(m) => {
      start_bad = true;
      ctx.violation("pillar_lunar", fmt_ymd(d), format!("panics: {}", m), rp.clone())
    }
  }
  if ord >= first_term_day {
    let r = guard(|| mk(d).get_sixty_cycle_day().get_sixty_cycle().get_name());
    match r {
      Ok(p) => {
        if p != want_p {
          ctx.violation("pillar_sixty", fmt_ymd(d), format!("SixtyCycleDay::get_sixty_cycle = {}, model = {}", p, want_p), rp);
        }
      }
      Err(m) => ctx.violation("pillar_sixty", fmt_ymd(d), format!("get_sixty_cycle_day panics: {}", m), rp),
    }
  }
  // the weekday of an instant is the weekday of its civil day: 06:00, noon, 18:00 and 23:59:59
  {
    let r = guard(|| [0.25f64, 0.5, 0.75, 86399.0 / 86400.0].iter().map(|f| JulianDay::from_julian_day(JD0 + ord as f64 + f).get_week().get_index()).collect::<Vec<_>>());
    loc.transitions += 1;
    match r {
      Ok(ws) => {
        if ws.iter().any(|w| *w != want_w) {
          ctx.violation("weekday_instant", fmt_ymd(d), format!("JulianDay::get_week at 06:00 / 12:00 / 18:00 / 23:59:59 of the day = {:?}; model (JDN {} + 1) mod 7 = {}", ws, jdn, want_w), vec!["day".to_string(), d.0.to_string(), d.1.to_string(), d.2.to_string()]);
        }
      }
      Err(m) => ctx.violation("weekday_instant", fmt_ymd(d), format!("panics: {}", m), vec!["day".to_string(), d.0.to_string(), d.1.to_string(), d.2.to_string()]),
    }
  }
  // two more public routes to the pillar, on every fifth date
  if ord >= first_term_day && (ord % 5 == 0 || (d.0 == 1582 && (d.1 == 10 || d.1 == 9))) {
    loc.transitions += 2;
    let r = guard(|| {
      let sd = mk(d);
      // a lunar day whose views are filled, stepped one day forward (and, after the first year, one day back): both views
      // of the stepped value must be those of the neighbouring civil day
      let ld = sd.get_lunar_day();
      let _ = ld.get_sixty_cycle_day();
      let _ = ld.get_solar_day();
      let mut stepped = String::new();
      let mut stepped_to = d;
      // (not backwards in the first year: the sexagenary-day view of the day before the first term day needs a term of 1 BC)
      for dn in if ord > 400 { vec![1i64, -1] } else { vec![1i64] } {
        let o2 = ord as i64 + dn;
        if o2 < 0 || o2 as usize >= civ.len() {
          continue;
        }
        let n = ld.next(dn as isize);
        let wp = pillar_name(day_pillar(civ.jdn(o2 as usize)));
        let (v1, v2, sd2) = (n.get_sixty_cycle_day().get_sixty_cycle().get_name(), n.get_sixty_cycle().get_name(), ymd_of(&n.get_solar_day()));
        if v1 != wp || v2 != wp || sd2 != civ.date(o2 as usize) {
          stepped_to = civ.date(o2 as usize);
          stepped = format!("next({}): sexagenary-day view {} / lunar-day pillar {} on {}; model {} on {}", dn, v1, v2, fmt_ymd(sd2), wp, fmt_ymd(civ.date(o2 as usize)));
        }
      }
      // an hour of this lunar day stepped over midnight: the lunar day it belongs to carries the neighbour's pillar
      if ord > 400 && ord + 400 < civ.len() {
        for (hh, dn) in [(22usize, 1i64), (1, -1)] {
          let h = tyme4rs::tyme::lunar::LunarHour::from_ymd_hms(ld.get_year(), ld.get_month(), ld.get_day(), hh, 0, 0).next(dn as isize);
          let o2 = (ord as i64 + dn) as usize;
          let wp = pillar_name(day_pillar(civ.jdn(o2)));
          let got = h.get_lunar_day().get_sixty_cycle().get_name();
          if got != wp {
            stepped_to = civ.date(o2);
            stepped = format!("LunarHour {}:00 .next({}) .get_lunar_day(): pillar {}; model {} on {}", hh, dn, got, wp, fmt_ymd(civ.date(o2)));
          }
        }
      }
      // the sexagenary-day view itself stepped by n days: pillar and civil date of the neighbour (also across the 1582 gap)
      if ord > 400 {
        let scd = sd.get_sixty_cycle_day();
        for dn in [1i64, -1, 14, -14, 30] {
          let o2 = ord as i64 + dn;
          if o2 < 400 || o2 as usize >= civ.len() - 400 {
            continue;
          }
          let n = scd.next(dn as isize);
          let wp = pillar_name(day_pillar(civ.jdn(o2 as usize)));
          if n.get_sixty_cycle().get_name() != wp || ymd_of(&n.get_solar_day()) != civ.date(o2 as usize) {
            stepped_to = civ.date(o2 as usize);
            stepped = format!("SixtyCycleDay.next({}): pillar {} on {}; model {} on {}", dn, n.get_sixty_cycle().get_name(), n.get_solar_day(), wp, fmt_ymd(civ.date(o2 as usize)));
          }
        }
      }
      (SixtyCycleDay::from_solar_day(sd).get_sixty_cycle().get_name(), sd.get_lunar_day().get_sixty_cycle_day().get_sixty_cycle().get_name(), ymd_of(&sd.get_sixty_cycle_day().get_solar_day()), stepped, stepped_to)
    });
    match r {
      Ok((a, b, back, stepped, stepped_to)) => {
        if !stepped.is_empty() {
          // keyed by the start date when the start itself is already reported as wrong, else by the date reached
          let key = if start_bad { format!("{} stepped", fmt_ymd(d)) } else { format!("{} reached from {}", fmt_ymd(stepped_to), fmt_ymd(d)) };
          ctx.violation("pillar_route", key, format!("stepped value: {}", stepped), vec!["day".to_string(), d.0.to_string(), d.1.to_string(), d.2.to_string()]);
        }
        if a != want_p || b != want_p || back != d {
          ctx.violation("pillar_route", fmt_ymd(d), format!("SixtyCycleDay::from_solar_day = {}, LunarDay::get_sixty_cycle_day = {}, SixtyCycleDay::get_solar_day = {}; model {} on {}", a, b, fmt_ymd(back), want_p, fmt_ymd(d)), vec!["day".to_string(), d.0.to_string(), d.1.to_string(), d.2.to_string()]);
        }
      }
      Err(m) => ctx.violation("pillar_route", fmt_ymd(d), format!("panics: {}", m), vec!["day".to_string(), d.0.to_string(), d.1.to_string(), d.2.to_string()]),
    }
  }
  if d.1 == 1 && d.2 == 1 {
    loc.traces += 1;
  }
}

pub fn run(ctx: &Ctx) {
  let civ = Civil::build();
  ctx.assume("day number = odometer JDN; the sexagenary-day view (which needs the governing solar term) is observed from the first term day of year 1 on");
  let first_term_day = read_term(&civ, 1, 1).day as usize;
  let years = years_for(ctx, 1, 9999);
  let mut n = 0u64;
  let mut done = true;
  for &y in &years {
    let (a, b) = civ.year_range(y as i32, y as i32);
    n += (b - a) as u64;
    let _ = (a, b);
  }
  // contiguous runs
  let mut runs: Vec<(usize, usize)> = Vec::new();
  for &y in &years {
    let (a, b) = civ.year_range(y as i32, y as i32);
    if let Some(last) = runs.last_mut() {
      if last.1 == a {
        last.1 = b;
        continue;
      }
    }
    runs.push((a, b));
  }
  for (a, b) in runs {
    done &= par_chunks(ctx, a, b, 1024, |x, y, l| {
      for o in x..y {
        check_day(ctx, &civ, o, first_term_day, l);
      }
    });
  }
  ctx.subspace(&format!("civil dates of {} years ({} dates) x 5 routes (lunar-day pillar, sexagenary-day pillar, three weekday routes; on every fifth date also SixtyCycleDay::from_solar_day and LunarDay::get_sixty_cycle_day)", years.len(), n), done, n);
  // quick only: every 11th day of the whole range (11 is coprime to 7 and 60, and shorter than any lunation), so that a
  // lunar month whose first day number is wrong anywhere in 0001..9999 shows up without sweeping all 3.65 M dates
  if ctx.quick() {
    let total = civ.len();
    let cnt = (total + 10) / 11;
    let done = par_chunks(ctx, 0, cnt, 512, |x, y, l| {
      for k in x..y {
        check_day(ctx, &civ, k * 11, first_term_day, l);
      }
    });
    ctx.subspace(&format!("every 11th civil date of 0001-01-01..9999-12-31 ({} dates) x 5 routes", cnt), done, cnt as u64);
  }
  for d in [(1582, 10, 4), (1582, 10, 15), (2000, 1, 1), (1, 1, 1)] {
    let o = civ.ord(d.0, d.1, d.2).unwrap();
    let got = guard(|| {
      let sd = mk(d);
      format!("{} weekday {}", sd.get_lunar_day().get_sixty_cycle().get_name(), sd.get_week().get_index())
    });
    ctx.sample(format!("{} JDN {}: impl {:?}; model {} weekday {}", fmt_ymd(d), civ.jdn(o), got, pillar_name(day_pillar(civ.jdn(o))), weekday(civ.jdn(o))));
  }
}

pub fn replay(ctx: &Ctx, args: &[String]) {
  let civ = Civil::build();
  let n: Vec<i64> = args[1..].iter().filter_map(|a| a.parse().ok()).collect();
  let o = civ.ord(n[0] as i32, n[1] as u8, n[2] as u8).unwrap();
  let first_term_day = read_term(&civ, 1, 1).day as usize;
  println!("replay C07 {} JDN {} model pillar {} weekday {}", fmt_ymd(civ.date(o)), civ.jdn(o), pillar_name(day_pillar(civ.jdn(o))), weekday(civ.jdn(o)));
  let mut l = Local::default();
  check_day(ctx, &civ, o, first_term_day, &mut l);
  ctx.add(&l);
}
