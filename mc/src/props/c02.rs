//! C02 Solar <-> lunar conversion is a bijection that preserves order.
//! (a) state = civil date, transition = "next civil day"; (b) state = lunar (year, month, leap, day) candidates;
//! (c) ordered pairs from neighbouring lunations. Oracles: round-trip identity, successor relation on lunar
//! dates in model order, acceptance <=> 1 <= day <= month length, order == chronological order.

use crate::engine::*;
use crate::props::c01::{mk, ymd_of};
use crate::refmodel::civil::*;
use crate::refmodel::lunar::*;
use tyme4rs::tyme::lunar::{LunarDay, LunarMonth, LunarYear};
use tyme4rs::tyme::Tyme;

type LD = (i32, i8, u8);

fn lfmt(l: LD) -> String {
  format!("{}-{:02}", lkey(l.0 as isize, l.1 as isize), l.2)
}

fn lunar_of(d: Ymd) -> Result<(LD, Ymd, usize), String> {
  guard(|| {
    let l = mk(d).get_lunar_day();
    let back = ymd_of(&l.get_solar_day());
    ((l.get_year() as i32, l.get_month() as i8, l.get_day() as u8), back, l.get_lunar_month().get_day_count())
  })
}

/// successor of a lunar date in model order (None when the month is not in the table)
fn succ(t: &LunTable, l: LD, len: usize) -> Option<LD> {
  if (l.2 as usize) < len {
    return Some((l.0, l.1, l.2 + 1));
  }
  let p = t.pos(l.0 as isize, l.1 as isize)?;
  let n = t.l.get(p + 1)?;
  Some((n.y, n.m, 1))
}

fn check_dates(ctx: &Ctx, civ: &Civil, t: &LunTable, a: usize, b: usize, loc: &mut Local) {
  let mut prev: Option<(LD, usize)> = None;
  // start one day early so that the first transition of the chunk is checked too
  let start = if a > 0 { a - 1 } else { a };
  for o in start..b {
    let d = civ.date(o);
    let rp = vec!["date".to_string(), d.0.to_string(), d.1.to_string(), d.2.to_string()];
    let r = lunar_of(d);
    if o >= a {
      loc.states += 1;
      loc.transitions += 2;
    }
    match r {
      Ok((l, back, len)) => {
        if o >= a {
          if back != d {
            ctx.violation("roundtrip_solar", fmt_ymd(d), format!("{} -> lunar {} -> {}", fmt_ymd(d), lfmt(l), fmt_ymd(back)), rp.clone());
          }
          if let Some((pl, plen)) = prev {
            let want = succ(t, pl, plen);
            if want != Some(l) {
              ctx.violation(
                "consecutive",
                fmt_ymd(d),
                format!("previous civil day is lunar {} (month of {} days), {} is lunar {}; model successor = {}", lfmt(pl), plen, fmt_ymd(d), lfmt(l), want.map(lfmt).unwrap_or("none".into())),
                rp.clone(),
              );
            }
            if l.2 == 1 {
              loc.nontrivial += 1;
              if l.1 < 0 || pl.1 < 0 {
                loc.oc("month boundary next to a leap month");
              } else {
                loc.oc("month boundary");
              }
            }
          }
        }
        prev = Some((l, len));
      }
      Err(m) => {
        if o >= a {
          ctx.violation("roundtrip_solar", fmt_ymd(d), format!("get_lunar_day() panics: {}", m), rp);
        }
        prev = None;
      }
    }
    if d.1 == 1 && d.2 == 1 && o >= a {
      loc.traces += 1;
    }
  }
}

/// (b) every candidate day 0..=31 of lunation i, plus the order pairs (c) with the following lunations
fn check_lunation(ctx: &Ctx, civ: &Civil, t: &LunTable, i: usize, loc: &mut Local) {
  let l = t.l[i];
  if !l.ok {
    return;
  }
  loc.states += 1;
  let ord0 = l.jd - JDN0; // ordinal of day 1 (may be negative for lunar year 0)
  for day in 0..=31usize {
    loc.transitions += 1;
    let want = day >= 1 && day <= l.days as usize;
    let key = format!("{}-{:02}", l.key(), day);
    let rp = vec!["lunar".to_string(), l.y.to_string(), l.m.to_string(), day.to_string()];
    let got = guard(|| LunarDay::new(l.y as isize, l.m as isize, day).is_ok()).unwrap_or(false);
    if got != want {
      ctx.violation("accept_lunar", key.clone(), format!("LunarDay::new({},{},{}) accepted={} but the month has {} days", l.y, l.m, day, got, l.days), rp.clone());
      continue;
    }
    if !want {
      continue;
    }
    let o = ord0 + day as i64 - 1;
    if o < 0 || o as usize >= civ.len() {
      continue; // civil date outside 0001..9999: outside the claim
    }
    let r = guard(|| {
      let ld = LunarDay::from_ymd(l.y as isize, l.m as isize, day);
      let sd = ld.get_solar_day();
      let back = sd.get_lunar_day();
      (ymd_of(&sd), (back.get_year() as i32, back.get_month() as i8, back.get_day() as u8))
    });
    loc.transitions += 2;
    match r {
      Ok((sd, back)) => {
        if sd != civ.date(o as usize) {
          ctx.violation("lunar_to_solar", key.clone(), format!("lunar {} -> {} but first day JD {} + {} is {}", key, fmt_ymd(sd), l.jd, day - 1, fmt_ymd(civ.date(o as usize))), rp.clone());
        }
        if back != (l.y, l.m, day as u8) {
          ctx.violation("roundtrip_lunar", key.clone(), format!("lunar {} -> {} -> lunar {}", key, fmt_ymd(sd), lfmt(back)), rp.clone());
        }
      }
      Err(m) => ctx.violation("roundtrip_lunar", key.clone(), format!("lunar {} -> solar -> lunar panics: {}", key, m), rp.clone()),
    }
  }
  // (c) order against this and the next two lunations
  let days_of = |x: &Lun| -> Vec<usize> {
    let mut v = vec![1usize, 2, 15, x.days as usize];
    v.dedup();
    v
  };
  for j in i..(i + 3).min(t.l.len()) {
    let r = t.l[j];
    if !r.ok {
      continue;
    }
    for &da in &days_of(&l) {
      for &db in &days_of(&r) {
        let ca = l.jd + da as i64;
        let cb = r.jd + db as i64;
        loc.transitions += 1;
        let res = guard(|| {
          let x = LunarDay::from_ymd(l.y as isize, l.m as isize, da);
          let y = LunarDay::from_ymd(r.y as isize, r.m as isize, db);
          (x.is_before(y.clone()), x.is_after(y.clone()), y.is_before(x.clone()), y.is_after(x))
        });
        let key = format!("{}-{:02} vs {}-{:02}", l.key(), da, r.key(), db);
        let rp = vec!["order".to_string(), l.y.to_string(), l.m.to_string(), da.to_string(), r.y.to_string(), r.m.to_string(), db.to_string()];
        match res {
          Ok((xb, xa, yb, ya)) => {
            let want = (ca < cb, ca > cb, cb < ca, cb > ca);
            if (xb, xa, yb, ya) != want {
              ctx.violation(
                "order",
                key,
                format!("x={}-{:02} (JD {}) y={}-{:02} (JD {}): x.is_before(y)={} x.is_after(y)={} y.is_before(x)={} y.is_after(x)={}; chronological order wants {:?}", l.key(), da, ca, r.key(), db, cb, xb, xa, yb, ya, want),
                rp,
              );
            }
          }
          Err(m) => ctx.violation("order", key, format!("panics: {}", m), rp),
        }
      }
    }
  }
  // LunarDay::next(n) on the first and last day of the lunation
  for &day in &[1usize, l.days as usize] {
    for &n in &[1isize, -1, 29, -29, 30, -30, 354, -354, 384, -384] {
      let o = ord0 + day as i64 - 1;
      let tgt = o + n as i64;
      if o < 0 || tgt < 0 || o as usize >= civ.len() || tgt as usize >= civ.len() {
        continue;
      }
      loc.transitions += 1;
      let res = guard(|| {
        let nx = LunarDay::from_ymd(l.y as isize, l.m as isize, day).next(n);
        let direct = mk(civ.date(tgt as usize)).get_lunar_day();
        (ymd_of(&nx.get_solar_day()), nx == direct)
      });
      let key = format!("{}-{:02} n={:+}", l.key(), day, n);
      let rp = vec!["lunar".to_string(), l.y.to_string(), l.m.to_string(), day.to_string()];
      match res {
        Ok((sd, same)) => {
          if sd != civ.date(tgt as usize) || !same {
            ctx.violation("lunar_next", key, format!("LunarDay.next({}) lands on civil {} (same label as direct conversion: {}), model = {}", n, fmt_ymd(sd), same, fmt_ymd(civ.date(tgt as usize))), rp);
          }
        }
        Err(m) => ctx.violation("lunar_next", key, format!("panics: {}", m), rp),
      }
    }
  }
  // LunarHour::next across the day border, from the first and the last day of the lunation (a leap month keeps its sign)
  // (not in the reform-era lunar years 7..26 / 235..241: LunarDay stepping there is already recorded under K-C02-*)
  for &day in &[1usize, l.days as usize] {
    if (7..=26).contains(&l.y) || (235..=241).contains(&l.y) {
      break;
    }
    for &(hh, n) in &[(22usize, 1isize), (1, -1), (12, 12), (12, -12)] {
      let o = ord0 + day as i64 - 1;
      let tgt = o + if n > 0 { 1 } else { -1 };
      if o < 1 || tgt < 1 || o as usize >= civ.len() - 1 || tgt as usize >= civ.len() - 1 {
        continue;
      }
      loc.transitions += 1;
      let res = guard(|| {
        let h = tyme4rs::tyme::lunar::LunarHour::from_ymd_hms(l.y as isize, l.m as isize, day, hh, 0, 0).next(n);
        let ld = h.get_lunar_day();
        let direct = mk(civ.date(tgt as usize)).get_lunar_day();
        (ymd_of(&ld.get_solar_day()), ld == direct, ymd_of(&h.get_solar_time().get_solar_day()))
      });
      let key = format!("{}-{:02} {}h n={:+}", l.key(), day, hh, n);
      let rp = vec!["lunar".to_string(), l.y.to_string(), l.m.to_string(), day.to_string()];
      match res {
        Ok((sd, same, sd2)) => {
          if sd != civ.date(tgt as usize) || !same || sd2 != civ.date(tgt as usize) {
            ctx.violation("lunar_next", key, format!("LunarHour {}:00 .next({}) is on lunar day of civil {} / solar time on {} (same label as direct conversion: {}), model = {}", hh, n, fmt_ymd(sd), fmt_ymd(sd2), same, fmt_ymd(civ.date(tgt as usize))), rp);
          }
        }
        Err(m) => ctx.violation("lunar_next", key, format!("LunarHour.next panics: {}", m), rp),
      }
    }
  }
  // non-existent leap months of this year are refused (once per year, on the year's first month)
  if l.m == 1 {
    let leap = t.leap[l.y as usize] as isize;
    for m in 1..=12isize {
      if m == leap {
        continue;
      }
      loc.transitions += 1;
      let got = guard(|| LunarDay::new(l.y as isize, -m, 1).is_ok()).unwrap_or(false);
      if got {
        ctx.violation("accept_lunar", format!("{}-01", lkey(l.y as isize, -m)), format!("LunarDay::new({},{},1) accepted but lunar year {} has leap month {}", l.y, -m, l.y, leap), vec!["leap".into(), l.y.to_string(), (-m).to_string()]);
      }
    }
    for m in [0isize, 13, -13] {
      let got = guard(|| LunarMonth::new(l.y as isize, m).is_ok()).unwrap_or(false);
      if got {
        ctx.violation("accept_lunar", format!("{}-01", lkey(l.y as isize, m)), format!("LunarMonth::new({},{}) accepted", l.y, m), vec!["leap".into(), l.y.to_string(), m.to_string()]);
      }
    }
  }
}

fn reform_era(y: isize) -> bool {
  (7..=26).contains(&y) || (235..=241).contains(&y)
}

/// (d) list order = chronological order: the months a lunar year hands out, taken in list order, start on strictly
/// increasing civil days (each one the previous first day + the previous month's day count) and the lunar days built from
/// neighbouring elements compare before/after accordingly.
fn check_year_list_order(ctx: &Ctx, y: isize, loc: &mut Local) {
  loc.states += 1;
  let key = format!("{:04}", y);
  let rp = vec!["listorder".to_string(), y.to_string()];
  let r = guard(|| {
    let ms = LunarYear::from_year(y).get_months();
    let mut bad: Vec<String> = Vec::new();
    for w in ms.windows(2) {
      let (a, b) = (&w[0], &w[1]);
      let fa = a.get_days().swap_remove(0);
      let fb = b.get_days().swap_remove(0);
      let (sa, sb) = (fa.get_solar_day(), fb.get_solar_day());
      let gap = sb.subtract(sa);
      let (ab, ba, aa, bb) = (fa.is_before(fb.clone()), fb.is_after(fa.clone()), fa.is_after(fb.clone()), fb.is_before(fa.clone()));
      if gap != a.get_day_count() as isize || !ab || !ba || aa || bb {
        bad.push(format!("list neighbours {} (first day {}, {} days) and {} (first day {}): civil gap {}, first.is_before(second)={}, second.is_after(first)={}", a, sa, a.get_day_count(), b, sb, gap, ab, ba));
      }
    }
    (ms.len(), bad)
  });
  match r {
    Ok((n, bad)) => {
      loc.transitions += n as u64;
      if bad.is_empty() {
        loc.oc("year_list_order_ok");
      } else {
        ctx.violation("list_order", key, bad.join("; "), rp);
      }
    }
    Err(m) => ctx.violation("list_order", key, format!("panics: {}", m), rp),
  }
}

pub fn run(ctx: &Ctx) {
  ctx.assume("lunar month order = model order of the lunation table (leap month directly after its twin); chronological position of a lunar day = first-day JD of its month + day - 1");
  let civ = Civil::build();
  let t = LunTable::build(ctx, 0, 9999);
  let years = years_for(ctx, 1, 9999);
  // (a) civil dates, in contiguous runs of years
  let mut runs: Vec<(usize, usize)> = Vec::new();
  for &y in &years {
    let (a, b) = civ.year_range(y as i32, y as i32);
    if let Some(last) = runs.last_mut() {
      if last.1 == a {
        last.1 = b;
        continue;
      }
    }
    runs.push((a, b));
  }
  let mut done = true;
  let mut ndates = 0u64;
  for (a, b) in &runs {
    ndates += (*b - *a) as u64;
    done &= par_chunks(ctx, *a, *b, 2048, |x, y, l| check_dates(ctx, &civ, &t, x, y, l));
  }
  ctx.subspace(&format!("(a) civil dates of {} years ({} dates): round trip and successor relation on every adjacent pair", years.len(), ndates), done, ndates);
  // (a') quick only: the month-boundary day, the day before it and the 15th day of EVERY lunation of 0..9999, so that a
  // lunar year anchored one lunation off anywhere in the range is seen without sweeping all 3.65 M dates
  if ctx.quick() {
    let mut ords: Vec<usize> = Vec::new();
    for l in t.l.iter().filter(|l| l.ok) {
      for o in [l.jd - JDN0, l.jd - JDN0 + 14] {
        if o >= 1 && (o as usize) < civ.len() {
          ords.push(o as usize);
        }
      }
    }
    ords.sort();
    ords.dedup();
    let done = par_chunks(ctx, 0, ords.len(), 256, |x, y, l| {
      for k in x..y {
        check_dates(ctx, &civ, &t, ords[k], ords[k] + 1, l);
      }
    });
    ctx.subspace(&format!("(a') first and 15th civil day of every lunation of lunar years 0..9999 ({} dates): round trip, and successor relation with the day before", ords.len()), done, ords.len() as u64);
  }
  // (b)+(c) lunations of lunar years in the tier's year set (plus year 0)
  let lyears: Vec<isize> = if ctx.quick() { years.clone() } else { (0..=9999).collect() };
  let mut idx: Vec<usize> = Vec::new();
  for &y in &lyears {
    for i in t.year_start[y as usize] as usize..t.year_start[y as usize + 1] as usize {
      idx.push(i);
    }
  }
  let done = par_chunks(ctx, 0, idx.len(), 64, |x, y, l| {
    for k in x..y {
      check_lunation(ctx, &civ, &t, idx[k], l);
    }
  });
  ctx.subspace(&format!("(b)(c) {} lunations x candidate days 0..31 (acceptance, lunar->solar->lunar), order pairs with the next two lunations x days {{1,2,15,last}}^2, LunarDay.next(n) on first/last days, non-existent leap months", idx.len()), done, idx.len() as u64);
  // (d) list order of every lunar year's months (both tiers)
  let done = par_chunks(ctx, 1, 9999, 25, |a, b, l| {
    for y in a..b {
      if !reform_era(y as isize) {
        check_year_list_order(ctx, y as isize, l);
      }
    }
  });
  ctx.subspace("(d) months handed out by LunarYear::get_months() of lunar years 1..9998 (reform-era years 7-26 / 235-241 are judged by C03 and the known findings): neighbouring list elements start on civil days exactly one month length apart and their first days compare before/after in list order", done, 9998 - 27);
  for d in [(2020, 5, 23), (2020, 6, 21), (1582, 10, 15), (9, 1, 10), (9999, 12, 31)] {
    ctx.sample(match lunar_of(d) {
      Ok((l, back, len)) => format!("civil {} -> lunar {} (month of {} days) -> civil {}", fmt_ymd(d), lfmt(l), len, fmt_ymd(back)),
      Err(m) => format!("civil {} -> get_lunar_day panics: {}", fmt_ymd(d), m),
    });
  }
}

pub fn replay(ctx: &Ctx, args: &[String]) {
  let civ = Civil::build();
  let nums: Vec<isize> = args[1..].iter().filter_map(|a| a.parse().ok()).collect();
  let mut l = Local::default();
  match args[0].as_str() {
    "date" => {
      let y = nums[0];
      let t = LunTable::build(ctx, (y - 2).max(0), (y + 1).min(9999));
      let o = civ.ord(y as i32, nums[1] as u8, nums[2] as u8).unwrap();
      for k in o.saturating_sub(1)..=o {
        println!("  civil {} -> {:?}", fmt_ymd(civ.date(k)), lunar_of(civ.date(k)).map(|(l, b, n)| format!("lunar {} (len {}) -> civil {}", lfmt(l), n, fmt_ymd(b))));
      }
      check_dates(ctx, &civ, &t, o, o + 1, &mut l);
    }
    "listorder" => {
      println!("replay C02 list order of lunar year {}", nums[0]);
      check_year_list_order(ctx, nums[0], &mut l);
    }
    _ => {
      let y = nums[0];
      let t = LunTable::build(ctx, (y - 2).max(0), (y + 2).min(9999));
      let p = t.pos(y, nums[1]).expect("lunation");
      println!("  lunation {} JD {} days {}", t.l[p].key(), t.l[p].jd, t.l[p].days);
      check_lunation(ctx, &civ, &t, p, &mut l);
    }
  }
  ctx.add(&l);
}
