//! C01 Civil calendar <-> day count. State = civil date (all 3,652,061); transitions = next(n) for a
//! step alphabet, conversions to/from Julian day; oracle = the civil odometer.

use crate::engine::*;
use crate::refmodel::civil::*;
use tyme4rs::tyme::jd::JulianDay;
use tyme4rs::tyme::solar::{SolarDay, SolarMonth, SolarTime, SolarWeek, SolarYear};
use tyme4rs::tyme::Tyme;

fn alphabet(quick: bool) -> Vec<i64> {
  // the whole space costs ~2 s on 16 cores, so both tiers use the full alphabet
  let _ = quick;
  // every small step 1..=40 (so that every pair of dates up to 40 days apart is converted back to back), then the
  // month / year / century sized ones
  let mut base: Vec<i64> = (1..=40).collect();
  base.extend([59, 60, 61, 365, 366, 1461, 36524, 36525, 146097, 1_000_000]);
  let mut v = Vec::new();
  for b in base {
    v.push(b);
    v.push(-b);
  }
  v
}

pub fn mk(d: Ymd) -> SolarDay {
  SolarDay::from_ymd(d.0 as isize, d.1 as usize, d.2 as usize)
}

pub fn ymd_of(s: &SolarDay) -> Ymd {
  (s.get_year() as i32, s.get_month() as u8, s.get_day() as u8)
}

fn key(d: Ymd) -> String {
  fmt_ymd(d)
}

fn rp(d: Ymd) -> Vec<String> {
  vec!["date".into(), d.0.to_string(), d.1.to_string(), d.2.to_string()]
}

/// everything observable about one date; `alpha` = step alphabet
fn check_date(ctx: &Ctx, civ: &Civil, ord: usize, alpha: &[i64], l: &mut Local) {
  let d = civ.date(ord);
  l.states += 1;
  if d.1 == 1 && d.2 == 1 {
    l.traces += 1;
  }
  let r = guard(|| {
    let sd = mk(d);
    let mut bad: Vec<(String, String)> = Vec::new();
    // date -> day count
    let jd = sd.get_julian_day().get_day();
    let want = JD0 + ord as f64;
    if jd != want {
      bad.push(("to_jd".into(), format!("get_julian_day={} model={}", jd, want)));
    }
    // day count -> date, at 00:00, 12:00 and late evening of that civil day
    for f in [0.0, 0.5, 0.999] {
      let back = guard(|| ymd_of(&JulianDay::from_julian_day(want + f).get_solar_day()));
      match back {
        Ok(b) if b == d => {}
        Ok(b) => bad.push(("from_jd".into(), format!("JD {}+{} -> {} model={}", want, f, fmt_ymd(b), fmt_ymd(d)))),
        Err(m) => bad.push(("from_jd".into(), format!("JD {}+{} panics: {}", want, f, m))),
      }
    }
    // day of year
    let doy = sd.get_index_in_year();
    let want_doy = ord - civ.year_start[d.0 as usize] as usize;
    if doy != want_doy {
      bad.push(("day_of_year".into(), format!("get_index_in_year={} model={}", doy, want_doy)));
    }
    (sd, bad)
  });
  l.transitions += 5;
  let sd = match r {
    Ok((sd, bad)) => {
      for (c, m) in bad {
        ctx.violation(&c, key(d), m, rp(d));
      }
      sd
    }
    Err(m) => {
      ctx.violation("accept", key(d), format!("existing date refused/panics: {}", m), rp(d));
      return;
    }
  };
  // stepping, difference, order
  for &n in alpha {
    let t = ord as i64 + n;
    if t < 0 || t as usize >= civ.len() {
      continue;
    }
    let want = civ.date(t as usize);
    l.transitions += 1;
    let r = guard(|| {
      let nx = sd.next(n as isize);
      let got = ymd_of(&nx);
      let diff = nx.subtract(sd);
      let before = sd.is_before(nx);
      let after = sd.is_after(nx);
      let rbefore = nx.is_before(sd);
      let rafter = nx.is_after(sd);
      (got, diff, before, after, rbefore, rafter)
    });
    match r {
      Ok((got, diff, before, after, rbefore, rafter)) => {
        if got != want {
          ctx.violation("next", format!("{} n={:+}", key(d), n), format!("next({}) = {} model = {}", n, fmt_ymd(got), fmt_ymd(want)), {
            let mut v = rp(d);
            v.push(n.to_string());
            v
          });
        } else {
          if diff as i64 != n {
            ctx.violation("subtract", format!("{} n={:+}", key(d), n), format!("{}.subtract({}) = {} model = {}", fmt_ymd(got), key(d), diff, n), {
              let mut v = rp(d);
              v.push(n.to_string());
              v
            });
          }
          let wb = n > 0;
          let wa = n < 0;
          if before != wb || after != wa || rbefore != wa || rafter != wb {
            ctx.violation(
              "order",
              format!("{} n={:+}", key(d), n),
              format!("x={} y={}: x.is_before(y)={} x.is_after(y)={} y.is_before(x)={} y.is_after(x)={} model: x {} y", key(d), fmt_ymd(got), before, after, rbefore, rafter, if wb { "<" } else { ">" }),
              {
                let mut v = rp(d);
                v.push(n.to_string());
                v
              },
            );
          }
        }
      }
      Err(m) => ctx.violation("next", format!("{} n={:+}", key(d), n), format!("next({}) panics: {} (model = {})", n, m, fmt_ymd(want)), {
        let mut v = rp(d);
        v.push(n.to_string());
        v
      }),
    }
  }
  // reflexive order
  if sd.is_before(sd) || sd.is_after(sd) {
    ctx.violation("order", format!("{} n=+0", key(d)), "x.is_before(x) or x.is_after(x) is true".into(), rp(d));
  }
  // non-trivial: month ends, year ends, leap days, the cut-over neighbourhood
  if d.2 == 1 || d.2 >= 28 || (d.0 == 1582 && d.1 == 10) {
    l.nontrivial += 1;
  }
}

fn check_accept(ctx: &Ctx, civ: &Civil, y: i64, l: &mut Local) {
  for m in 0..=13i64 {
    for d in 0..=32i64 {
      l.transitions += 1;
      let want = civ.exists(y, m, d);
      let got = guard(|| SolarDay::new(y as isize, m as usize, d as usize).is_ok()).unwrap_or(false);
      if got != want {
        ctx.violation(
          "accept",
          format!("{:04}-{:02}-{:02}", y, m, d),
          format!("SolarDay::new({},{},{}) accepted={} model exists={}", y, m, d, got, want),
          vec!["triple".into(), y.to_string(), m.to_string(), d.to_string()],
        );
      }
      if want {
        l.oc("accepted");
      } else {
        l.oc("refused");
      }
    }
  }
  // the year and month objects themselves: constructible exactly for years 1..9999 and months 1..12
  {
    let yok = guard(|| SolarYear::new(y as isize).is_ok()).unwrap_or(false);
    l.transitions += 15;
    if yok != (y >= 1 && y <= 9999) {
      ctx.violation("accept", format!("{:04} year", y), format!("SolarYear::new({}) accepted={}", y, yok), vec!["year".into(), y.to_string()]);
    }
    for m in 0..=13i64 {
      let mok = guard(|| SolarMonth::new(y as isize, m as usize).is_ok()).unwrap_or(false);
      if mok != (y >= 1 && y <= 9999 && m >= 1 && m <= 12) {
        ctx.violation("accept", format!("{:04}-{:02} month", y, m), format!("SolarMonth::new({}, {}) accepted={}", y, m, mok), vec!["year".into(), y.to_string()]);
      }
    }
  }
  if y >= 1 && y <= 9999 {
    // year / month lengths, leap flag
    let r = guard(|| {
      let sy = SolarYear::from_year(y as isize);
      let mut bad = Vec::new();
      if sy.get_day_count() != civ.days_in_year(y as i32) {
        bad.push(format!("SolarYear({}).get_day_count()={} model={}", y, sy.get_day_count(), civ.days_in_year(y as i32)));
      }
      if sy.is_leap() != is_leap(y as i32) {
        bad.push(format!("SolarYear({}).is_leap()={} model={}", y, sy.is_leap(), is_leap(y as i32)));
      }
      for m in 1..=12u8 {
        let c = SolarMonth::from_ym(y as isize, m as usize).get_day_count();
        if c != civ.days_in_month(y as i32, m) as usize {
          bad.push(format!("SolarMonth({},{}).get_day_count()={} model={}", y, m, c, civ.days_in_month(y as i32, m)));
        }
      }
      bad
    });
    l.transitions += 14;
    match r {
      Ok(bad) => {
        for b in bad {
          ctx.violation("lengths", format!("{:04}", y), b, vec!["year".into(), y.to_string()]);
        }
      }
      Err(m) => ctx.violation("lengths", format!("{:04}", y), format!("panics: {}", m), vec!["year".into(), y.to_string()]),
    }
  }
}

/// Dates handed out in lists: every element of every week of month (y, m), for all seven week starts, must be an
/// existing civil date, the i-th day after the week's first day, and the first day must be the model's.
fn check_weeks(ctx: &Ctx, civ: &Civil, y: i32, m: u8, l: &mut Local) {
  let o1 = match civ.ord(y, m, 1) {
    Some(o) => o as i64,
    None => return,
  };
  let wd1 = (civ.jdn(o1 as usize) + 1).rem_euclid(7); // 0 = Sunday
  let n = civ.len() as i64;
  for start in 0..7i64 {
    let back = (wd1 - start).rem_euclid(7);
    let want_count = ((back + civ.days_in_month(y, m) as i64) + 6) / 7;
    let key = format!("{:04}-{:02} start {}", y, m, start);
    let rp = vec!["weeks".to_string(), y.to_string(), m.to_string()];
    let cnt = guard(|| SolarMonth::from_ym(y as isize, m as usize).get_week_count(start as usize));
    match cnt {
      Ok(c) if c as i64 == want_count => l.oc("week_count_ok"),
      Ok(c) => ctx.violation("week_count", key.clone(), format!("get_week_count={} model={}", c, want_count), rp.clone()),
      Err(e) => ctx.violation("week_count", key.clone(), format!("panics: {}", e), rp.clone()),
    }
    for k in 0..want_count {
      let first = o1 - back + 7 * k;
      if first < 0 || first + 6 >= n {
        l.oc("week_leaves_range_skipped");
        continue;
      }
      l.states += 1;
      let got = guard(|| SolarWeek::from_ym(y as isize, m as usize, k as usize, start as usize).get_days().iter().map(ymd_of).collect::<Vec<Ymd>>());
      match got {
        Ok(v) => {
          let want: Vec<Ymd> = (0..7).map(|i| civ.date((first + i) as usize)).collect();
          if v == want {
            l.oc("week_days_ok");
          } else {
            ctx.violation("week_days", format!("{} index {}", key, k), format!("get_days={:?} model={:?}", v, want), rp.clone());
          }
        }
        Err(e) => ctx.violation("week_days", format!("{} index {}", key, k), format!("panics: {}", e), rp.clone()),
      }
    }
  }
}

const CLOCKS: [(usize, usize, usize); 5] = [(0, 0, 0), (0, 0, 10), (12, 0, 0), (23, 59, 50), (23, 59, 59)];
const SEC_STEPS: [i64; 12] = [1, 20, 3599, 43200, 86399, 86400, 86401, 90000, 172799, 172800, 2_678_400, 31_622_400];

/// Stepping a time of day by n seconds is stepping the day count by floor((sec_of_day + n) / 86400) civil days.
fn check_time_steps(ctx: &Ctx, civ: &Civil, ord: usize, l: &mut Local) {
  let d = civ.date(ord);
  let n = civ.len() as i64;
  for c in CLOCKS {
    let sod = (c.0 * 3600 + c.1 * 60 + c.2) as i64;
    for s in SEC_STEPS {
      for step in [s, -s] {
        let tot = sod + step;
        let dd = tot.div_euclid(86400);
        let ts = tot.rem_euclid(86400);
        let to = ord as i64 + dd;
        if to < 0 || to >= n {
          continue;
        }
        l.transitions += 1;
        let want = (civ.date(to as usize), (ts / 3600) as usize, (ts % 3600 / 60) as usize, (ts % 60) as usize);
        let got = guard(|| {
          let t = SolarTime::from_ymd_hms(d.0 as isize, d.1 as usize, d.2 as usize, c.0, c.1, c.2).next(step as isize);
          (ymd_of(&t.get_solar_day()), t.get_hour(), t.get_minute(), t.get_second())
        });
        let key = format!("{} {:02}:{:02}:{:02} next({})", fmt_ymd(d), c.0, c.1, c.2, step);
        let rp = vec!["time".to_string(), d.0.to_string(), d.1.to_string(), d.2.to_string()];
        match got {
          Ok(g) if g == want => l.oc("time_step_ok"),
          Ok(g) => ctx.violation("time_step", key, format!("impl={:?} model={:?}", g, want), rp),
          Err(e) => ctx.violation("time_step", key, format!("panics: {}", e), rp),
        }
      }
    }
  }
}

pub fn run(ctx: &Ctx) {
  let civ = Civil::build();
  let alpha = alphabet(ctx.quick());
  ctx.assume("reference = day-counting odometer of the Julian/Gregorian civil calendar, cross-checked at start-up against integer closed-form JDN formulas; anchor JD(2000-01-01 00:00)=2451544.5");
  // 1. acceptance of every candidate triple, years -1..=10001
  let done = par_chunks(ctx, 0, 10003, 50, |a, b, l| {
    for i in a..b {
      check_accept(ctx, &civ, i as i64 - 1, l);
    }
  });
  ctx.subspace("accept: all (year -1..10001, month 0..13, day 0..32) triples; year/month lengths and leap flag of every year", done, 10003 * 14 * 33);
  // 2. every date x alphabet
  let n = civ.len();
  let done = par_chunks(ctx, 0, n, 4096, |a, b, l| {
    for o in a..b {
      check_date(ctx, &civ, o, &alpha, l);
    }
  });
  ctx.subspace(&format!("dates: all 3,652,061 civil dates x observers x step alphabet {:?}", alpha), done, n as u64);
  // 3. dates handed out in lists: every week of every month, all seven week starts
  let done = par_chunks(ctx, 0, 9999 * 12, 240, |a, b, l| {
    for i in a..b {
      check_weeks(ctx, &civ, (i / 12 + 1) as i32, (i % 12 + 1) as u8, l);
    }
  });
  ctx.subspace("weeks: every week (all indices, week starts 0..6) of every month 0001-01..9999-12: week count, and each of the 7 listed days = model date (first day + i)", done, 9999 * 12 * 7);
  // 4. time-of-day stepping carries into the day count with floor semantics
  let stride = if ctx.quick() { 7 } else { 1 };
  let done = par_chunks(ctx, 0, n, 4096, |a, b, l| {
    for o in a..b {
      if o % stride == 0 || civ.date(o).2 == 1 || (1582 == civ.date(o).0 && civ.date(o).1 == 10) {
        check_time_steps(ctx, &civ, o, l);
      }
    }
  });
  ctx.subspace(&format!("time steps: {} civil dates (every {}th, every 1st of a month, all of 1582-10) x clocks {:?} x second steps +-{:?}: (date, h, m, s) = model floor carry", if stride == 1 { "all".to_string() } else { format!("1/{} of the", stride) }, stride, CLOCKS, SEC_STEPS), done, (n / stride) as u64 * 120);
  for d in [(1582, 10, 4), (1582, 10, 15), (1, 1, 1), (9999, 12, 31), (1900, 2, 28), (2000, 2, 29)] {
    let o = civ.ord(d.0, d.1, d.2).unwrap();
    let s = guard(|| {
      let sd = mk(d);
      format!(
        "date {} (ordinal {}): impl JD {} model JD {}; impl next(1)={} model {}; impl day-of-year {}",
        fmt_ymd(d),
        o,
        sd.get_julian_day().get_day(),
        JD0 + o as f64,
        if o + 1 < civ.len() { fmt_ymd(ymd_of(&sd.next(1))) } else { "-".into() },
        if o + 1 < civ.len() { fmt_ymd(civ.date(o + 1)) } else { "-".into() },
        sd.get_index_in_year()
      )
    });
    ctx.sample(s.unwrap_or_else(|m| format!("date {} panics: {}", fmt_ymd(d), m)));
  }
  for t in [(1582i64, 10i64, 10i64), (1900, 2, 29), (1500, 2, 29), (0, 1, 1), (2023, 13, 1)] {
    let got = guard(|| SolarDay::new(t.0 as isize, t.1 as usize, t.2 as usize).is_ok()).unwrap_or(false);
    ctx.sample(format!("triple {:?}: impl accepted={} model exists={}", t, got, civ.exists(t.0, t.1, t.2)));
  }
}

pub fn replay(ctx: &Ctx, args: &[String]) {
  let civ = Civil::build();
  let mut l = Local::default();
  let nums: Vec<i64> = args[1..].iter().filter_map(|a| a.parse().ok()).collect();
  match args[0].as_str() {
    "date" => {
      let d = (nums[0] as i32, nums[1] as u8, nums[2] as u8);
      let ord = civ.ord(d.0, d.1, d.2).expect("date exists in the model");
      let alpha: Vec<i64> = if nums.len() > 3 { vec![nums[3]] } else { alphabet(false) };
      println!("replay C01 date {} ordinal {} model JD {} alphabet {:?}", fmt_ymd(d), ord, JD0 + ord as f64, alpha);
      check_date(ctx, &civ, ord, &alpha, &mut l);
    }
    "triple" | "year" => {
      println!("replay C01 acceptance / lengths of year {}", nums[0]);
      check_accept(ctx, &civ, nums[0], &mut l);
    }
    "weeks" => {
      println!("replay C01 weeks of {:04}-{:02}", nums[0], nums[1]);
      check_weeks(ctx, &civ, nums[0] as i32, nums[1] as u8, &mut l);
    }
    "time" => {
      let d = (nums[0] as i32, nums[1] as u8, nums[2] as u8);
      println!("replay C01 time steps from {}", fmt_ymd(d));
      check_time_steps(ctx, &civ, civ.ord(d.0, d.1, d.2).expect("date exists in the model"), &mut l);
    }
    _ => panic!("unknown replay kind"),
  }
  ctx.add(&l);
}
