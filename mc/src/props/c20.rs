//! C20 Festival and legal-holiday lookups are consistent in both directions.
//! State = table key (civil date, lunar date, (year, index), holiday record); transitions = lookup by date,
//! by index, next(n). Oracle = independently framed records + the lunation / term tables.

use crate::engine::*;
use crate::props::c01::ymd_of;
use crate::refmodel::civil::*;
use crate::refmodel::lunar::*;
use crate::refmodel::terms::*;
use tyme4rs::tyme::festival::{LunarFestival, SolarFestival};
use tyme4rs::tyme::holiday::{LegalHoliday, LEGAL_HOLIDAY_DATA};
use tyme4rs::tyme::solar::SolarDay;
use tyme4rs::tyme::Culture;

/// civil festivals: (name, month, day, founding year) -- the published list
const SOLAR: [(&str, u8, u8, i32); 10] = [("元旦", 1, 1, 1950), ("三八妇女节", 3, 8, 1950), ("植树节", 3, 12, 1979), ("五一劳动节", 5, 1, 1950), ("五四青年节", 5, 4, 1950), ("六一儿童节", 6, 1, 1950), ("建党节", 7, 1, 1941), ("八一建军节", 8, 1, 1933), ("教师节", 9, 10, 1985), ("国庆节", 10, 1, 1950)];

#[derive(Clone, Copy, PartialEq, Debug)]
enum LKind {
  Day(i8, u8),
  Term(usize),
  Eve,
}

const LUNAR: [(&str, LKind); 13] = [
  ("春节", LKind::Day(1, 1)),
  ("元宵节", LKind::Day(1, 15)),
  ("龙头节", LKind::Day(2, 2)),
  ("上巳节", LKind::Day(3, 3)),
  ("清明节", LKind::Term(7)),
  ("端午节", LKind::Day(5, 5)),
  ("七夕节", LKind::Day(7, 7)),
  ("中元节", LKind::Day(7, 15)),
  ("中秋节", LKind::Day(8, 15)),
  ("重阳节", LKind::Day(9, 9)),
  ("冬至节", LKind::Term(24)),
  ("腊八节", LKind::Day(12, 8)),
  ("除夕", LKind::Eve),
];

fn check_solar_date(ctx: &Ctx, civ: &Civil, ord: usize, loc: &mut Local) {
  let d = civ.date(ord);
  loc.states += 1;
  loc.transitions += 2;
  let want = SOLAR.iter().position(|f| f.1 == d.1 && f.2 == d.2 && d.0 >= f.3);
  let r = guard(|| {
    let a = SolarFestival::from_ymd(d.0 as isize, d.1 as usize, d.2 as usize).map(|f| (f.get_index(), f.get_name(), ymd_of(&f.get_day()), f.get_start_year()));
    let b = SolarDay::from_ymd(d.0 as isize, d.1 as usize, d.2 as usize).get_festival().map(|f| f.get_index());
    (a, b)
  });
  let rp = vec!["sdate".to_string(), ord.to_string()];
  match r {
    Ok((a, b)) => {
      let ok = match (want, &a) {
        (None, None) => true,
        (Some(i), Some((gi, gn, gd, gy))) => *gi == i && gn == SOLAR[i].0 && *gd == d && *gy as i32 == SOLAR[i].3,
        _ => false,
      };
      if !ok || b != want {
        ctx.violation("solar_by_date", fmt_ymd(d), format!("from_ymd = {:?}, SolarDay::get_festival index {:?}; published list says {:?}", a, b, want.map(|i| SOLAR[i])), rp);
      }
      if want.is_some() {
        loc.nontrivial += 1;
      }
    }
    Err(m) => ctx.violation("solar_by_date", fmt_ymd(d), format!("panics: {}", m), rp),
  }
}

fn check_solar_index(ctx: &Ctx, y: i32, loc: &mut Local) {
  for i in 0..12usize {
    loc.transitions += 1;
    let want = if i < 10 && y >= SOLAR[i].3 { Some((i, (y, SOLAR[i].1, SOLAR[i].2))) } else { None };
    let r = guard(|| {
      SolarFestival::from_index(y as isize, i).map(|f| {
        if f.get_type().get_name() != "日期" {
          panic!("civil festival {} has type {}", f.get_name(), f.get_type().get_name());
        }
        (f.get_index(), ymd_of(&f.get_day()))
      })
    });
    let key = format!("{:04} #{}", y, i);
    let rp = vec!["sindex".to_string(), y.to_string()];
    match r {
      Ok(g) => {
        if g != want {
          ctx.violation("solar_by_index", key, format!("from_index({}, {}) = {:?}, model {:?}", y, i, g, want), rp);
        }
      }
      Err(m) => ctx.violation("solar_by_index", key, format!("panics: {}", m), rp),
    }
    if i >= 10 || want.is_none() {
      continue;
    }
    // stepping: n in -25..=25
    // plus long jumps to fixed far targets (large |n| of either sign)
    let far: Vec<i64> = [(40i64, 3i64), (1949, 0), (1950, 0), (5000, 9), (9999, 9)].iter().map(|(ty, ti)| (ty - y as i64) * 10 + ti - i as i64).filter(|n| n.abs() > 25).collect();
    for n in (-25i64..=25).chain(far.into_iter()) {
      let t = i as i64 + n;
      let ty = y as i64 + t.div_euclid(10);
      let ti = t.rem_euclid(10) as usize;
      if ty < 1 || ty > 9999 {
        continue;
      }
      loc.transitions += 1;
      let wantn = if ty as i32 >= SOLAR[ti].3 { Some((ti, (ty as i32, SOLAR[ti].1, SOLAR[ti].2))) } else { None };
      let r = guard(|| SolarFestival::from_index(y as isize, i).unwrap().next(n as isize).map(|f| (f.get_index(), ymd_of(&f.get_day()))));
      let key = format!("{:04} #{} n={:+}", y, i, n);
      match r {
        Ok(g) => {
          if g != wantn {
            ctx.violation("solar_next", key, format!("next({}) = {:?}, model {:?}", n, g, wantn), vec!["sindex".into(), y.to_string()]);
          }
        }
        Err(m) => ctx.violation("solar_next", key, format!("panics: {}", m), vec!["sindex".into(), y.to_string()]),
      }
    }
  }
  loc.traces += 1;
}

/// the lunar date (year, signed month, day) of a civil day ordinal via the lunation table
fn lunar_of_ord(t: &LunTable, y_hint: isize, ord: usize) -> Option<(i32, i8, u8)> {
  let jd = ord as i64 + JDN0;
  for y in [y_hint - 1, y_hint, y_hint + 1] {
    if y < 0 || y > 9999 {
      continue;
    }
    for l in t.year_slice(y) {
      if l.ok && l.jd <= jd && jd < l.jd + l.days as i64 {
        return Some((l.y, l.m, (jd - l.jd + 1) as u8));
      }
    }
  }
  None
}

/// model: the festivals that fall on each lunar date of lunar year y, in list order
fn lunar_festival_dates(t: &LunTable, tm: &Terms, y: isize) -> Vec<(usize, (i32, i8, u8))> {
  let mut v = Vec::new();
  let sl = t.year_slice(y);
  for (i, (_, k)) in LUNAR.iter().enumerate() {
    match k {
      LKind::Day(m, d) => {
        if let Some(l) = sl.iter().find(|l| l.m == *m) {
          if *d <= l.days {
            v.push((i, (y as i32, *m, *d)));
          }
        }
      }
      LKind::Term(ti) => {
        let g = 24 * y as usize + ti;
        let day = tm.t[g].day;
        if day != u32::MAX {
          if let Some(ld) = lunar_of_ord(t, y, day as usize) {
            v.push((i, ld));
          }
        }
      }
      LKind::Eve => {
        if let Some(l) = sl.last() {
          v.push((i, (l.y, l.m, l.days)));
        }
      }
    }
  }
  v
}

fn reform_era(y: isize) -> bool {
  (7..=26).contains(&y) || (235..=241).contains(&y)
}

fn check_lunar_year(ctx: &Ctx, t: &LunTable, tm: &Terms, y: isize, by_date: bool, loc: &mut Local) {
  if reform_era(y) {
    return; // the lunar table of these years is a known finding of C02/C03
  }
  loc.states += 1;
  let fest = lunar_festival_dates(t, tm, y);
  let rp = vec!["lyear".to_string(), y.to_string()];
  // by index
  for i in 0..15usize {
    loc.transitions += 1;
    let want = fest.iter().find(|f| f.0 == i).map(|f| f.1);
    let r = guard(|| {
      LunarFestival::from_index(y, i).map(|f| {
        let d = f.get_day();
        let own = d.get_festival().map(|g| g.get_index());
        // kind of the festival and, for term festivals, the term it is tied to
        let (want_kind, want_term) = match LUNAR[i.min(12)].1 {
          LKind::Day(_, _) => ("日期", None),
          LKind::Term(ti) => ("节气", Some(ti)),
          LKind::Eve => ("除夕", None),
        };
        let st = f.get_solar_term().map(|t| (t.get_index(), ymd_of(&t.get_julian_day().get_solar_day()) == ymd_of(&f.get_day().get_solar_day())));
        if f.get_type().get_name() != want_kind || st != want_term.map(|ti| (ti % 24, true)) {
          panic!("festival {} has type {} and solar term {:?}; model type {} term index {:?} falling on the festival's day", f.get_name(), f.get_type().get_name(), st, want_kind, want_term);
        }
        ((d.get_year() as i32, d.get_month() as i8, d.get_day() as u8), f.get_index(), f.get_name(), own)
      })
    });
    let key = format!("{:04} #{}", y, i);
    match r {
      Ok(None) => {
        if let Some(w) = want {
          // a term festival whose term day belongs to another lunar year is still *some* day; from_index does not filter by year
          ctx.violation("lunar_by_index", key, format!("from_index({}, {}) = None, model {:?}", y, i, w), rp.clone());
        }
      }
      Ok(Some((d, gi, gn, own))) => {
        let want_d = want;
        if i >= 13 || gi != i || gn != LUNAR[i].0 || Some(d) != want_d {
          // term festivals: the term day may lie in the neighbouring lunar year; then only the day itself is compared
          let is_term = i < 13 && matches!(LUNAR[i].1, LKind::Term(_));
          if !(is_term && want_d.is_some() && Some(d) == want_d) {
            ctx.violation("lunar_by_index", key.clone(), format!("from_index({}, {}) = {} on lunar {:?}; model {:?}", y, i, gn, d, want_d), rp.clone());
          }
        }
        // the day's own lookup returns it, or an earlier-listed festival sharing the day
        let shared_earlier = fest.iter().filter(|f| Some(f.1) == want_d && f.0 < i).map(|f| f.0).min();
        let want_own = shared_earlier.or(Some(i));
        if own != want_own && d.0 as isize == y {
          ctx.violation("lunar_day_lookup", key, format!("{} (index {}) falls on lunar {:?} but that day's own get_festival() returns index {:?}; model {:?}", gn, i, d, own, want_own), rp.clone());
        }
      }
      Err(m) => {
        if !(y == 9999 && i == 12) {
          ctx.violation("lunar_by_index", key, format!("panics: {}", m), rp.clone());
        }
      }
    }
    if i >= 13 || y >= 9998 || y < 2 {
      continue;
    }
    // stepping
    // plus long jumps to fixed far targets (large |n| of either sign)
    let far: Vec<i64> = [(40i64, 1i64), (1021, 12), (5000, 6), (9990, 0)].iter().map(|(ty, ti)| (ty - y as i64) * 13 + ti - i as i64).filter(|n| n.abs() > 27).collect();
    for n in [-14i64, -13, -5, -1, 0, 1, 2, 12, 13, 14, 27].into_iter().chain(far.into_iter()) {
      let tt = i as i64 + n;
      let ty = y as i64 + tt.div_euclid(13);
      let ti = tt.rem_euclid(13) as usize;
      if ty < 2 || ty > 9997 || reform_era(ty as isize) {
        continue;
      }
      loc.transitions += 1;
      let r = guard(|| {
        let f = LunarFestival::from_index(y, i).unwrap();
        let g = f.next(n as isize).unwrap();
        let h = LunarFestival::from_index(ty as isize, ti).unwrap();
        (g.get_index(), g.get_day() == h.get_day(), g.get_day().get_year(), f.get_day().get_year())
      });
      let key = format!("{:04} #{} n={:+}", y, i, n);
      match r {
        Ok((gi, same, _gy, fy)) => {
          // stepping is defined from the lunar year of the festival's own day; only when that is the nominal year is the model unambiguous
          if fy == y && (gi != ti || !same) {
            ctx.violation("lunar_next", key, format!("next({}) = index {} (same day as from_index({}, {}): {})", n, gi, ty, ti, same), rp.clone());
          }
        }
        Err(m) => ctx.violation("lunar_next", key, format!("panics: {}", m), rp.clone()),
      }
    }
  }
  // by date: every lunar date of the year: found <=> in the model set (first listed wins)
  if by_date {
    for l in t.year_slice(y) {
      if !l.ok {
        continue;
      }
      for d in 1..=l.days {
        loc.transitions += 1;
        let date = (l.y, l.m, d);
        let want = fest.iter().filter(|f| f.1 == date).map(|f| f.0).min();
        let r = guard(|| LunarFestival::from_ymd(y, l.m as isize, d as usize).map(|f| (f.get_index(), f.get_name())));
        let key = format!("{}-{:02}", l.key(), d);
        let drp = vec!["ldate".to_string(), y.to_string(), l.m.to_string(), d.to_string()];
        match r {
          Ok(g) => {
            if g.as_ref().map(|x| x.0) != want {
              ctx.violation("lunar_by_date", key, format!("from_ymd = {:?}; model: festival index {:?} ({})", g, want, want.map(|i| LUNAR[i].0).unwrap_or("none")), drp);
            }
          }
          Err(m) => ctx.violation("lunar_by_date", key, format!("panics: {}", m), drp),
        }
      }
    }
  }
  loc.traces += 1;
}

#[derive(Clone, Debug)]
struct Rec {
  y: i32,
  m: u8,
  d: u8,
  work: bool,
  idx: usize,
  off: i64,
}

fn holiday_records() -> Result<Vec<Rec>, String> {
  let s = LEGAL_HOLIDAY_DATA;
  if !s.is_ascii() || s.len() % 13 != 0 {
    return Err(format!("table length {} is not a multiple of the 13-character record", s.len()));
  }
  let mut v = Vec::new();
  for k in 0..s.len() / 13 {
    let r = &s[13 * k..13 * k + 13];
    let num = |a: usize, b: usize| r[a..b].parse::<i64>().map_err(|_| format!("record {} '{}': not a number", k, r));
    let sign = match &r[10..11] {
      "+" => 1,
      "-" => -1,
      _ => return Err(format!("record {} '{}': bad sign", k, r)),
    };
    v.push(Rec { y: num(0, 4)? as i32, m: num(4, 6)? as u8, d: num(6, 8)? as u8, work: &r[8..9] == "0", idx: num(9, 10)? as usize, off: sign * num(11, 13)? });
    if &r[8..9] != "0" && &r[8..9] != "1" {
      return Err(format!("record {} '{}': work flag", k, r));
    }
  }
  Ok(v)
}

fn check_holiday_record(ctx: &Ctx, civ: &Civil, recs: &[Rec], k: usize, steps: &[i64], loc: &mut Local) {
  let r = &recs[k];
  loc.states += 1;
  loc.transitions += 1;
  let key = format!("{:04}-{:02}-{:02}", r.y, r.m, r.d);
  let rp = vec!["hrec".to_string(), k.to_string()];
  let o = match civ.ord(r.y, r.m, r.d) {
    Some(o) => o,
    None => {
      ctx.violation("holiday_record", key, "record is not a real date".into(), rp);
      return;
    }
  };
  if r.idx >= 9 {
    ctx.violation("holiday_record", key.clone(), format!("name index {} beyond the name list", r.idx), rp.clone());
  }
  if k > 0 {
    let p = &recs[k - 1];
    if (p.y, p.m, p.d) >= (r.y, r.m, r.d) {
      ctx.violation("holiday_record", key.clone(), "records are not in strictly increasing date order".into(), rp.clone());
    }
  }
  // the compensated-festival offset points at a rest day in the table (a combined holiday such as 国庆中秋 may carry another label)
  let target = o as i64 + r.off;
  let td = civ.date(target as usize);
  let hit = recs.iter().find(|x| (x.y, x.m, x.d) == td);
  match hit {
    Some(x) if !x.work => {}
    other => ctx.violation("holiday_record", key.clone(), format!("offset {:+} points at {} which is {:?} (model: a rest day of the table)", r.off, fmt_ymd(td), other.map(|x| (x.work, x.idx))), rp.clone()),
  }
  // lookup
  let g = guard(|| LegalHoliday::from_ymd(r.y as isize, r.m as usize, r.d as usize).map(|h| (h.is_work(), h.get_name(), ymd_of(&h.get_day()))));
  match g {
    Ok(Some((w, n, d))) => {
      if w != r.work || r.idx >= 9 || n != tyme4rs::tyme::holiday::LEGAL_HOLIDAY_NAMES[r.idx.min(8)] || d != (r.y, r.m, r.d) {
        ctx.violation("holiday_lookup", key.clone(), format!("from_ymd = (work {}, {}, {}), record says (work {}, index {})", w, n, fmt_ymd(d), r.work, r.idx), rp.clone());
      }
    }
    other => ctx.violation("holiday_lookup", key.clone(), format!("from_ymd = {:?} for a date of the table", other), rp.clone()),
  }
  // stepping
  for &n in steps {
    let t = k as i64 + n;
    loc.transitions += 1;
    let want = if t >= 0 && (t as usize) < recs.len() {
      let x = &recs[t as usize];
      Some(((x.y, x.m, x.d), x.work, tyme4rs::tyme::holiday::LEGAL_HOLIDAY_NAMES[x.idx.min(8)].to_string()))
    } else {
      None
    };
    let g = guard(|| LegalHoliday::from_ymd(r.y as isize, r.m as usize, r.d as usize).unwrap().next(n as isize).map(|h| (ymd_of(&h.get_day()), h.is_work(), h.get_name())));
    let skey = format!("{} n={:+}", key, n);
    match g {
      Ok(got) => {
        if got != want {
          ctx.violation("holiday_next", skey, format!("next({}) = {:?} (date, work flag, name), table position {} + {} = {:?}", n, got, k, n, want), rp.clone());
        }
      }
      Err(m) => ctx.violation("holiday_next", skey, format!("panics: {}", m), rp.clone()),
    }
  }
}

pub fn run(ctx: &Ctx) {
  let civ = Civil::build();
  ctx.assume("civil festival list (name, month-day, founding year) and lunar festival list are the published ones typed by name; lunar dates from the lunation table, term days from the term table; legal-holiday records framed independently as 13 characters YYYYMMDD w i +-dd; lunar years 7-26 and 235-241 (reform-era table, known findings of C02/C03) are left out of the lunar festival checks");
  // civil festivals
  let (ya, yb) = if ctx.quick() { (1925, 2035) } else { (1900, 2100) };
  let (a, b) = civ.year_range(ya, yb);
  let done = par_chunks(ctx, a, b, 512, |x, y, l| {
    for o in x..y {
      check_solar_date(ctx, &civ, o, l);
    }
  });
  ctx.subspace(&format!("civil festivals by date: every civil date {}..{}", ya, yb), done, (b - a) as u64);
  let years: Vec<i32> = if ctx.quick() { (1..=9998).filter(|y| in_windows(&quick_windows(ctx.seed), *y as isize) || (1925..=2035).contains(y) || y % 9 == 0).collect() } else { (1..=9998).collect() };
  let done = par_chunks(ctx, 0, years.len(), 8, |x, y, l| {
    for i in x..y {
      check_solar_index(ctx, years[i], l);
    }
  });
  ctx.subspace(&format!("civil festivals by index: {} years x indices 0..11, next(n) n in -25..25 and long jumps to (40,#3) (1949,#0) (1950,#0) (5000,#9) (9999,#9)", years.len()), done, years.len() as u64 * 12);
  // lunar festivals
  let t = LunTable::build(ctx, 0, 9999);
  let tm = Terms::build(ctx, &civ);
  let lyears: Vec<isize> = years.iter().map(|y| *y as isize).filter(|y| *y >= 1).collect();
  let by_date_range = if ctx.quick() { (1990, 2030) } else { (1900, 2100) };
  let done = par_chunks(ctx, 0, lyears.len(), 4, |x, y, l| {
    for i in x..y {
      let yy = lyears[i];
      check_lunar_year(ctx, &t, &tm, yy, (by_date_range.0..=by_date_range.1).contains(&yy) || (!ctx.quick() && yy % 50 == 0), l);
    }
  });
  ctx.subspace(&format!("lunar festivals: {} lunar years x indices 0..14 (day, own-day lookup, next(n) for 11 step counts and long jumps to (40,#1) (1021,#12) (5000,#6) (9990,#0)); every lunar date of {}..{} by date", lyears.len(), by_date_range.0, by_date_range.1), done, lyears.len() as u64 * 15);
  // legal holidays
  match holiday_records() {
    Err(e) => ctx.violation("holiday_record", "table".into(), e, vec!["htable".into()]),
    Ok(recs) => {
      let n = recs.len() as i64;
      let done = par_chunks(ctx, 0, recs.len(), 4, |x, y, l| {
        for k in x..y {
          let steps: Vec<i64> = if ctx.quick() { vec![1, -1, 2, -2, 10, -10, 57, -57, -(k as i64), n - 1 - k as i64, -(k as i64) - 1, n - k as i64] } else { (-(k as i64) - 2..=n - k as i64 + 1).collect() };
          check_holiday_record(ctx, &civ, &recs, k, &steps, l);
          // pair law on a few pairs
          for (a, b) in [(1i64, 1i64), (3, -2), (-4, 9), (25, 25)] {
            let t = k as i64 + a + b;
            let mid = k as i64 + a;
            if t < 0 || t >= n || mid < 0 || mid >= n {
              continue;
            }
            l.transitions += 1;
            let r = &recs[k];
            let g = guard(|| {
              let h = LegalHoliday::from_ymd(r.y as isize, r.m as usize, r.d as usize).unwrap();
              (h.next(a as isize).unwrap().next(b as isize).map(|x| ymd_of(&x.get_day())), h.next((a + b) as isize).map(|x| ymd_of(&x.get_day())))
            });
            match g {
              Ok((p, q)) if p == q => {}
              other => ctx.violation("holiday_next", format!("{:04}-{:02}-{:02} a={:+} b={:+}", r.y, r.m, r.d, a, b), format!("next(a).next(b) vs next(a+b): {:?}", other), vec!["hrec".into(), k.to_string()]),
            }
          }
        }
      });
      ctx.subspace(&format!("legal holidays: all {} records (real date, order, offset target, lookup) x next(n) for {}", recs.len(), if ctx.quick() { "12 step counts incl. both table ends and one past them" } else { "every n from two before the table start to two past its end" }), done, recs.len() as u64);
      // membership: every civil date 2000..2030
      let (a, b) = civ.year_range(2000, 2030);
      let done = par_chunks(ctx, a, b, 256, |x, y, l| {
        for o in x..y {
          let d = civ.date(o);
          l.transitions += 1;
          let want = recs.iter().any(|r| (r.y, r.m, r.d) == d);
          let g = guard(|| (LegalHoliday::from_ymd(d.0 as isize, d.1 as usize, d.2 as usize).is_some(), SolarDay::from_ymd(d.0 as isize, d.1 as usize, d.2 as usize).get_legal_holiday().is_some()));
          match g {
            Ok((p, q)) if p == want && q == want => {}
            other => ctx.violation("holiday_lookup", fmt_ymd(d), format!("found={:?}, in the framed table: {}", other, want), vec!["hdate".into(), o.to_string()]),
          }
        }
      });
      ctx.subspace("legal holidays: membership of every civil date 2000..2030", done, (b - a) as u64);
      // membership outside the table's years: a lookup that scans the packed text can only be fooled by digits that occur in
      // it, so every 8-character window of the text (at any offset, not only at record starts) that reads as an existing
      // civil date is looked up; plus the first and last day of every month of 0001..9999
      let bytes = LEGAL_HOLIDAY_DATA.as_bytes();
      let mut cand: Vec<usize> = Vec::new();
      for i in 0..bytes.len().saturating_sub(7) {
        if bytes[i..i + 8].iter().all(|c| c.is_ascii_digit()) {
          let num = |a: usize, b: usize| -> i64 { std::str::from_utf8(&bytes[a..b]).unwrap().parse().unwrap() };
          if let Some(o) = civ.ord(num(i, i + 4) as i32, num(i + 4, i + 6) as u8, num(i + 6, i + 8) as u8) {
            cand.push(o);
          }
        }
      }
      for y in 1..=9999i32 {
        for m in 1..=12u8 {
          let o = civ.ord(y, m, 1).unwrap();
          cand.push(o);
          cand.push(o + civ.days_in_month(y, m) as usize - 1);
        }
      }
      cand.sort();
      cand.dedup();
      let done = par_chunks(ctx, 0, cand.len(), 256, |x, y, l| {
        for k in x..y {
          let d = civ.date(cand[k]);
          l.transitions += 1;
          let want = recs.iter().any(|r| (r.y, r.m, r.d) == d);
          let g = guard(|| LegalHoliday::from_ymd(d.0 as isize, d.1 as usize, d.2 as usize).is_some());
          match g {
            Ok(p) if p == want => {}
            other => ctx.violation("holiday_lookup", fmt_ymd(d), format!("found={:?}, in the framed table: {}", other, want), vec!["hdate".into(), cand[k].to_string()]),
          }
        }
      });
      ctx.subspace(&format!("legal holidays: membership of every civil date whose 8 digits occur anywhere in the packed table text, and of the first and last day of every month of 0001..9999 ({} dates)", cand.len()), done, cand.len() as u64);
    }
  }
  if ctx.primary() {
    let r = guard(|| LunarFestival::from_ymd(2023, 11, 10).map(|f| f.get_name()));
    ctx.sample(format!("lunar 2023-11-10 (winter solstice 2023-12-22): from_ymd = {:?}; model 冬至节", r));
    let r = guard(|| LegalHoliday::from_ymd(2024, 2, 10).map(|h| h.to_string()));
    ctx.sample(format!("2024-02-10: {:?}", r));
  }
}

pub fn replay(ctx: &Ctx, args: &[String]) {
  let civ = Civil::build();
  let n: Vec<i64> = args[1..].iter().filter_map(|a| a.parse().ok()).collect();
  let mut l = Local::default();
  match args[0].as_str() {
    "sdate" => check_solar_date(ctx, &civ, n[0] as usize, &mut l),
    "sindex" => check_solar_index(ctx, n[0] as i32, &mut l),
    "lyear" | "ldate" => {
      let y = n[0] as isize;
      let t = LunTable::build(ctx, (y - 3).max(0), (y + 4).min(9999));
      let tm = Terms::build_range(ctx, &civ, (y - 3).max(0) as usize, (y + 4).min(10000) as usize);
      println!("replay C20 lunar year {}: model festival dates {:?}", y, lunar_festival_dates(&t, &tm, y));
      check_lunar_year(ctx, &t, &tm, y, true, &mut l);
    }
    "hrec" => {
      let recs = holiday_records().unwrap();
      let k = n[0] as usize;
      let steps: Vec<i64> = (-(k as i64) - 2..=recs.len() as i64 - k as i64 + 1).collect();
      check_holiday_record(ctx, &civ, &recs, k, &steps, &mut l);
    }
    _ => run(ctx),
  }
  ctx.add(&l);
}
