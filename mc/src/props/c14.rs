//! C14 Weeks of a month. State = week (month, start weekday, index); transitions = next(n), list accessors,
//! date -> week; oracle = odometer day ordinals and the (JDN+1) mod 7 weekday.

use crate::engine::*;
use crate::props::c01::{mk, ymd_of};
use crate::refmodel::civil::*;
use crate::refmodel::lunar::*;
use crate::refmodel::pillar::weekday;
use tyme4rs::tyme::lunar::{LunarDay, LunarMonth, LunarWeek};
use tyme4rs::tyme::solar::{SolarMonth, SolarWeek};
use tyme4rs::tyme::{Culture, Tyme};

fn steps(quick: bool, full: bool) -> Vec<isize> {
  if full {
    let mut v: Vec<isize> = (-60..=60).collect();
    v.retain(|n| *n != 0);
    v.push(0);
    v
  } else if quick {
    vec![0, 1, -1, 5, -6, 53]
  } else {
    vec![0, 1, -1, 2, -2, 5, -5, 6, -6, 53, -53, 60, -60]
  }
}

/// model: first day ordinal of week `idx` of a month starting at ordinal o1 with `len` days
fn week_first(civ: &Civil, o1: usize, start: usize, idx: usize) -> i64 {
  let off = (weekday(civ.jdn(o1)) - start as i64).rem_euclid(7);
  o1 as i64 + 7 * idx as i64 - off
}

fn week_count(civ: &Civil, o1: usize, len: usize, start: usize) -> usize {
  let off = (weekday(civ.jdn(o1)) - start as i64).rem_euclid(7) as usize;
  (off + len + 6) / 7
}

fn check_month(ctx: &Ctx, civ: &Civil, y: i32, m: u8, nsteps: &[isize], with_index_in_year: bool, loc: &mut Local) {
  let o1 = civ.ord(y, m, 1).unwrap();
  let len = civ.days_in_month(y, m) as usize;
  let n = civ.len() as i64;
  for start in 0..7usize {
    let wc = week_count(civ, o1, len, start);
    loc.states += 1;
    loc.transitions += 1;
    let key0 = format!("{:04}-{:02} start={}", y, m, start);
    let rp0 = vec!["month".to_string(), y.to_string(), m.to_string()];
    // count, list, refusal beyond the count
    let r = guard(|| {
      let sm = SolarMonth::from_ym(y as isize, m as usize);
      (sm.get_week_count(start), sm.get_weeks(start).iter().map(|w| (w.get_index(), w.get_start().get_index())).collect::<Vec<_>>(), SolarWeek::new(y as isize, m as usize, wc, start).is_ok(), SolarWeek::new(y as isize, m as usize, 6, start).is_ok())
    });
    match r {
      Ok((c, list, extra, six)) => {
        if c != wc || list != (0..wc).map(|i| (i, start)).collect::<Vec<_>>() || (wc < 6 && extra) || six {
          ctx.violation("week_count", key0.clone(), format!("get_week_count={} get_weeks lists {:?}; index {} accepted={} index 6 accepted={}; model count {}", c, list, wc, extra, six, wc), rp0.clone());
        }
      }
      Err(e) => ctx.violation("week_count", key0.clone(), format!("panics: {}", e), rp0.clone()),
    }
    let jan0 = week_first(civ, civ.ord(y, 1, 1).unwrap(), start, 0);
    for idx in 0..wc {
      let f = week_first(civ, o1, start, idx);
      if f < 0 || f + 6 >= n {
        continue; // week reaches outside 0001..9999
      }
      loc.states += 1;
      loc.transitions += 2;
      let key = format!("{:04}-{:02} start={} idx={}", y, m, start, idx);
      let rp = vec!["month".to_string(), y.to_string(), m.to_string()];
      let r = guard(|| {
        let w = SolarWeek::from_ym(y as isize, m as usize, idx, start);
        if w.get_name() != ["第一周", "第二周", "第三周", "第四周", "第五周", "第六周"][idx] || w.get_index() != idx {
          panic!("SolarWeek name {} index {}", w.get_name(), w.get_index());
        }
        let sm = w.get_solar_month();
        if sm.get_year() != y as isize || sm.get_month() != m as usize {
          panic!("SolarWeek::get_solar_month() = {}-{}", sm.get_year(), sm.get_month());
        }
        (ymd_of(&w.get_first_day()), w.get_days().iter().map(|d| ymd_of(d)).collect::<Vec<_>>(), w.get_first_day().get_week().get_index())
      });
      match r {
        Ok((first, days, wd)) => {
          let want: Vec<Ymd> = (0..7).map(|k| civ.date(f as usize + k)).collect();
          if first != want[0] || days != want || wd != start {
            ctx.violation("week_days", key.clone(), format!("first day {} (weekday {}), days {:?}; model first day {} (weekday {}), 7 consecutive days", fmt_ymd(first), wd, days.iter().map(|d| fmt_ymd(*d)).collect::<Vec<_>>(), fmt_ymd(want[0]), start), rp.clone());
          }
        }
        Err(e) => ctx.violation("week_days", key.clone(), format!("panics: {}", e), rp.clone()),
      }
      // stepping: first day moves by 7n
      for &s in nsteps {
        let t = f + 7 * s as i64;
        if t < 31 || t + 6 + 31 >= n {
          continue;
        }
        loc.transitions += 1;
        let r = guard(|| {
          let w = SolarWeek::from_ym(y as isize, m as usize, idx, start).next(s);
          (ymd_of(&w.get_first_day()), w.get_start().get_index(), w.get_year(), w.get_month(), w.get_index())
        });
        let skey = format!("{} n={:+}", key, s);
        match r {
          Ok((first, st, wy, wm, wi)) => {
            // the label (month, index) must denote a week that really is a week of that month
            let lo1 = civ.ord(wy as i32, wm as u8, 1);
            let label_ok = match lo1 {
              Some(lo1) => wi < week_count(civ, lo1, civ.days_in_month(wy as i32, wm as u8) as usize, start) && week_first(civ, lo1, start, wi) == t,
              None => false,
            };
            if first != civ.date(t as usize) || st != start || !label_ok {
              ctx.violation("week_next", skey, format!("next({}) = week {}-{:02}#{} with first day {}; model first day {} (7 x {} days later)", s, wy, wm, wi, fmt_ymd(first), fmt_ymd(civ.date(t as usize)), s), rp.clone());
            }
          }
          Err(e) => ctx.violation("week_next", skey, format!("next({}) panics: {}; model first day {}", s, e, fmt_ymd(civ.date(t as usize))), rp.clone()),
        }
      }
      if with_index_in_year && jan0 >= 0 {
        loc.transitions += 1;
        let want = (f - jan0) / 7;
        let r = guard(|| SolarWeek::from_ym(y as isize, m as usize, idx, start).get_index_in_year());
        match r {
          Ok(g) => {
            if g as i64 != want {
              ctx.violation("week_index_in_year", key.clone(), format!("get_index_in_year={} model {}", g, want), rp.clone());
            }
          }
          Err(e) => ctx.violation("week_index_in_year", key.clone(), format!("panics: {}", e), rp.clone()),
        }
      }
    }
    // every date of the month: the week reported for it contains it
    for k in 0..len {
      let o = o1 + k;
      let d = civ.date(o);
      let idx = ((o as i64 - week_first(civ, o1, start, 0)) / 7) as usize;
      let f = week_first(civ, o1, start, idx);
      if f < 0 || f + 6 >= n {
        continue;
      }
      loc.transitions += 1;
      let r = guard(|| {
        let w = mk(d).get_solar_week(start);
        (w.get_index(), ymd_of(&w.get_first_day()), w.get_month(), w.get_year())
      });
      let key = format!("{} start={}", fmt_ymd(d), start);
      let rp = vec!["month".to_string(), y.to_string(), m.to_string()];
      match r {
        Ok((wi, first, wm, wy)) => {
          if wi != idx || first != civ.date(f as usize) || wm != m as usize || wy != y as isize {
            ctx.violation("date_week", key, format!("get_solar_week({}) = week #{} of {}-{:02} starting {}; model week #{} starting {} (the one containing the date)", start, wi, wy, wm, fmt_ymd(first), idx, fmt_ymd(civ.date(f as usize))), rp);
          }
        }
        Err(e) => ctx.violation("date_week", key, format!("get_solar_week({}) panics: {}; model week #{}", start, e, idx), rp),
      }
    }
  }
  loc.traces += 1;
  if y == 1582 && m == 10 {
    loc.nontrivial += 1;
  }
}

fn check_lunar_month(ctx: &Ctx, civ: &Civil, t: &LunTable, i: usize, nsteps: &[isize], loc: &mut Local) {
  let l = t.l[i];
  if !l.ok {
    return;
  }
  let o1 = l.jd - JDN0;
  let n = civ.len() as i64;
  if o1 < 400 || o1 + 400 >= n {
    return;
  }
  let o1 = o1 as usize;
  let len = l.days as usize;
  for start in 0..7usize {
    let wc = week_count(civ, o1, len, start);
    loc.states += 1;
    loc.transitions += 1;
    let key0 = format!("{} start={}", l.key(), start);
    let rp = vec!["lmonth".to_string(), l.y.to_string(), l.m.to_string()];
    let r = guard(|| {
      let lm = LunarMonth::from_ym(l.y as isize, l.m as isize);
      (lm.get_week_count(start), lm.get_weeks(start).len(), LunarWeek::new(l.y as isize, l.m as isize, wc, start).is_ok())
    });
    match r {
      Ok((c, ln, extra)) => {
        if c != wc || ln != wc || (wc < 6 && extra) {
          ctx.violation("lunar_week_count", key0.clone(), format!("get_week_count={} listed {} index {} accepted={}; model {}", c, ln, wc, extra, wc), rp.clone());
        }
      }
      Err(e) => ctx.violation("lunar_week_count", key0.clone(), format!("panics: {}", e), rp.clone()),
    }
    for idx in 0..wc {
      let f = week_first(civ, o1, start, idx);
      loc.states += 1;
      loc.transitions += 1;
      let key = format!("{} start={} idx={}", l.key(), start, idx);
      let r = guard(|| {
        let w = LunarWeek::from_ym(l.y as isize, l.m as isize, idx, start);
        let lm = w.get_lunar_month();
        if w.get_index() != idx || w.get_year() != l.y as isize || w.get_month() != l.m as isize || lm.get_year() != l.y as isize || lm.get_month_with_leap() != l.m as isize || w.get_name() != ["第一周", "第二周", "第三周", "第四周", "第五周", "第六周"][idx] {
          panic!("label getters: index {} year {} month {} lunar month {}-{} name {}", w.get_index(), w.get_year(), w.get_month(), lm.get_year(), lm.get_month_with_leap(), w.get_name());
        }
        w.get_days().iter().map(|d| ymd_of(&d.get_solar_day())).collect::<Vec<_>>()
      });
      match r {
        Ok(days) => {
          let want: Vec<Ymd> = (0..7).map(|k| civ.date(f as usize + k)).collect();
          if days != want {
            ctx.violation("lunar_week_days", key.clone(), format!("days {:?}; model 7 consecutive days from {}", days.iter().map(|d| fmt_ymd(*d)).collect::<Vec<_>>(), fmt_ymd(want[0])), rp.clone());
          }
        }
        Err(e) => ctx.violation("lunar_week_days", key.clone(), format!("panics: {}", e), rp.clone()),
      }
      for &s in nsteps {
        let tgt = f + 7 * s as i64;
        if tgt < 400 || tgt + 400 >= n {
          continue;
        }
        loc.transitions += 1;
        let r = guard(|| {
          let w = LunarWeek::from_ym(l.y as isize, l.m as isize, idx, start).next(s);
          let fd = w.get_first_day();
          (ymd_of(&fd.get_solar_day()), w.get_start().get_index())
        });
        let skey = format!("{} n={:+}", key, s);
        match r {
          Ok((first, st)) => {
            if first != civ.date(tgt as usize) || st != start {
              ctx.violation("lunar_week_next", skey, format!("next({}) first day {}; model {}", s, fmt_ymd(first), fmt_ymd(civ.date(tgt as usize))), rp.clone());
            }
          }
          Err(e) => ctx.violation("lunar_week_next", skey, format!("next({}) panics: {}; model first day {}", s, e, fmt_ymd(civ.date(tgt as usize))), rp.clone()),
        }
      }
    }
  }
  let _ = LunarDay::from_ymd;
}

/// the reform-era years whose lunar table is a known finding of C02/C03 are left to those properties
fn lunar_year_ok(y: i32) -> bool {
  !(y >= 7 && y <= 26) && !(y >= 235 && y <= 241)
}

pub fn run(ctx: &Ctx) {
  let civ = Civil::build();
  ctx.assume("week model: offset = (weekday of the month's first day - start) mod 7; week k starts at first day + 7k - offset; count = ceil((offset + month length)/7); weeks reaching outside 0001-01-01..9999-12-31 are outside the claim; lunar weeks of the reform-era years 7-26 and 235-241 are left to C02/C03 (known findings there)");
  let w = quick_windows(ctx.seed);
  let full_w: Vec<(isize, isize)> = vec![(1, 3), (1580, 1584), (1998, 2030), (9997, 9999)];
  let months: Vec<(i32, u8)> = {
    let mut v = Vec::new();
    for y in 1..=9999i32 {
      for m in 1..=12u8 {
        // quick: the windows, plus every 13th month of the whole range (13 is coprime to 12, so every month number is met)
        if ctx.quick() && !in_windows(&w, y as isize) && (12 * y as usize + m as usize) % 13 != 0 {
          continue;
        }
        v.push((y, m));
      }
    }
    v
  };
  let base = steps(ctx.quick(), false);
  let full = steps(false, true);
  let done = par_chunks(ctx, 0, months.len(), 24, |a, b, l| {
    for i in a..b {
      let (y, m) = months[i];
      let fullw = in_windows(&full_w, y as isize) && (!ctx.quick() || y == 1582 || y == 2024);
      check_month(ctx, &civ, y, m, if fullw { &full } else { &base }, !ctx.quick() || in_windows(&full_w, y as isize), l);
    }
  });
  ctx.subspace(
    &format!("civil months ({}) x 7 week starts x every index: count, refusal beyond it, first-day weekday, 7 consecutive days, date->week for every date, next(n) for n in {:?} (all n in -60..60 for years {:?}), index in year", months.len(), base, full_w),
    done,
    months.len() as u64 * 7,
  );
  let t = LunTable::build(ctx, 0, 9999);
  let lsteps: Vec<isize> = if ctx.quick() { vec![0, 1, -1, 5, -5, 30] } else { (-30..=30).collect() };
  let lyears: Vec<isize> = (2..=9998isize).filter(|y| lunar_year_ok(*y as i32) && (in_windows(&w, *y) || (ctx.quick() && y % 17 == 0) || (!ctx.quick() && y % 10 == 0))).collect();
  let mut idx: Vec<usize> = Vec::new();
  for &y in &lyears {
    idx.extend(t.year_start[y as usize] as usize..t.year_start[y as usize + 1] as usize);
  }
  let done = par_chunks(ctx, 0, idx.len(), 16, |a, b, l| {
    for k in a..b {
      check_lunar_month(ctx, &civ, &t, idx[k], &lsteps, l);
    }
  });
  ctx.subspace(&format!("lunar months of {} lunar years ({} lunations) x 7 starts x every index: count, days, next(n) n in {:?}", lyears.len(), idx.len(), if ctx.quick() { "{0,+-1,+-5,30}" } else { "-30..30" }), done, idx.len() as u64 * 7);
  if ctx.primary() {
    let r = guard(|| {
      let w = mk((1582, 10, 20)).get_solar_week(0);
      format!("index {} first day {}", w.get_index(), w.get_first_day())
    });
    ctx.sample(format!("1582-10-20 get_solar_week(0): impl {:?}; model week containing it starts 1582-10-17", r));
  }
}

pub fn replay(ctx: &Ctx, args: &[String]) {
  let civ = Civil::build();
  let n: Vec<i64> = args[1..].iter().filter_map(|a| a.parse().ok()).collect();
  let mut l = Local::default();
  match args[0].as_str() {
    "month" => {
      println!("replay C14 civil month {}-{:02}", n[0], n[1]);
      check_month(ctx, &civ, n[0] as i32, n[1] as u8, &steps(false, true), true, &mut l);
    }
    _ => {
      let y = n[0] as isize;
      let t = LunTable::build(ctx, (y - 6).max(0), (y + 6).min(9999));
      let p = t.pos(y, n[1] as isize).expect("lunation");
      println!("replay C14 lunar month {}", t.l[p].key());
      check_lunar_month(ctx, &civ, &t, p, &(-30..=30).collect::<Vec<isize>>(), &mut l);
    }
  }
  ctx.add(&l);
}
