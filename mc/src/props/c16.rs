//! C16 Child limit and fortunes follow from birth instant, gender and the governing Jie.
//! State = (birth instant, gender, strategy) on fully enumerated lattices around every Jie of the year
//! windows; oracle = term table (governing Jie), documented conversion rates, calendar addition via ordinals.

use crate::engine::*;
use crate::props::c08::ym_of_g;
use crate::props::c09;
use crate::props::c12::{fmt_inst, inst_of, mk_time};
use crate::refmodel::civil::*;
use crate::refmodel::pillar::*;
use crate::refmodel::terms::*;
use tyme4rs::tyme::eightchar::provider::*;
use tyme4rs::tyme::eightchar::{ChildLimit, ChildLimitInfo};
use tyme4rs::tyme::enums::Gender;
use tyme4rs::tyme::solar::SolarTerm;
use tyme4rs::tyme::{Culture, Tyme};

#[derive(Clone, Copy, Debug, PartialEq)]
enum Strat {
  Default,
  China95,
  Sect1,
  Sect2,
}

#[derive(Debug, PartialEq, Clone, Copy)]
struct Counts {
  y: i64,
  m: i64,
  d: i64,
  h: i64,
  mi: i64,
}

/// documented conversion of the distance between birth and the governing Jie
fn counts(st: Strat, civ: &Civil, birth: i64, jie: i64) -> Counts {
  let s = (jie - birth).abs();
  match st {
    // 3 days = 1 year, 1 day = 4 months, 1 hour = 5 days, 1 minute = 2 hours, 1 second = 2 minutes
    Strat::Default => Counts { y: s / 259200, m: s % 259200 / 21600, d: s % 21600 / 720, h: s % 720 / 30, mi: s % 30 * 2 },
    // minute based: 4320 min = 1 year, 360 min = 1 month, 12 min = 1 day
    Strat::China95 => {
      let min = s / 60;
      Counts { y: min / 4320, m: min % 4320 / 360, d: min % 360 / 12, h: 0, mi: 0 }
    }
    // minute based with hours: 1 minute = 2 hours
    Strat::Sect2 => {
      let min = s / 60;
      Counts { y: min / 4320, m: min % 4320 / 360, d: min % 360 / 12, h: min % 12 * 2, mi: 0 }
    }
    // by days and double-hours: 3 days = 1 year, 1 day = 4 months, 1 double-hour = 10 days
    Strat::Sect1 => {
      let (a, b) = if birth > jie { (jie, birth) } else { (birth, jie) };
      let zhi = |t: i64| {
        let h = t % 86400 / 3600;
        if h == 23 {
          11
        } else {
          (h + 1) / 2
        }
      };
      let mut hd = zhi(b) - zhi(a);
      let mut dd = b / 86400 - a / 86400;
      if hd < 0 {
        hd += 12;
        dd -= 1;
      }
      let _ = civ;
      let months = dd * 4 + hd * 10 / 30;
      Counts { y: months / 12, m: months % 12, d: hd * 10 % 30, h: 0, mi: 0 }
    }
  }
}

/// calendar addition: the set of acceptable end instants (two readings only when the target month is October 1582)
fn add_calendar(civ: &Civil, birth: i64, c: Counts) -> Vec<i64> {
  let bd = civ.date((birth / 86400) as usize);
  let sec = birth % 86400;
  let mut s = sec % 60;
  let mut mi = sec / 60 % 60 + c.mi + s / 60;
  s %= 60;
  let mut h = sec / 3600 + c.h + mi / 60;
  mi %= 60;
  let mut n = bd.2 as i64 + c.d + h / 24; // day number within the target month, may overflow
  h %= 24;
  let tm = (bd.0 as i64 + c.y) * 12 + (bd.1 as i64 - 1) + c.m;
  let (mut yy, mut mm) = ((tm / 12) as i32, (tm % 12) as u8 + 1);
  if yy > 9999 {
    return vec![];
  }
  let clock = h * 3600 + mi * 60 + s;
  let mut out = Vec::new();
  // reading 1: exact day count from the first day of the target month
  if let Some(o1) = civ.ord(yy, mm, 1) {
    let o = o1 as i64 + n - 1;
    if (o as usize) < civ.len() {
      out.push(o * 86400 + clock);
    }
  }
  // reading 2 (differs only when October 1582 is involved): overflow by month lengths, then the day *number*
  let (y0, m0) = (yy, mm);
  loop {
    let len = civ.days_in_month(yy, mm) as i64;
    if n <= len {
      break;
    }
    n -= len;
    mm += 1;
    if mm == 13 {
      mm = 1;
      yy += 1;
    }
    if yy > 9999 {
      return out;
    }
  }
  let touches_1582 = (y0 == 1582 && m0 <= 10 && (yy, mm) >= (1582, 10)) || (yy == 1582 && mm == 10);
  if touches_1582 {
    if let Some(o) = civ.ord(yy, mm, n as u8) {
      let v = o as i64 * 86400 + clock;
      if !out.contains(&v) {
        out.push(v);
      }
    }
  }
  out
}

struct Obs {
  forward: Option<bool>,
  counts: Counts,
  start: Option<i64>,
  end: Option<i64>,
}

fn info_obs(civ: &Civil, i: &ChildLimitInfo) -> Obs {
  Obs {
    forward: None,
    counts: Counts { y: i.get_year_count() as i64, m: i.get_month_count() as i64, d: i.get_day_count() as i64, h: i.get_hour_count() as i64, mi: i.get_minute_count() as i64 },
    start: inst_of(civ, &i.get_start_time()),
    end: inst_of(civ, &i.get_end_time()),
  }
}

fn check_case(ctx: &Ctx, civ: &Civil, tm: &Terms, birth: i64, man: bool, loc: &mut Local) {
  let max = civ.len() as i64 * 86400;
  if birth < 86400 * 400 || birth >= max {
    return;
  }
  let g = match tm.g_of_inst(birth) {
    Some(g) => g,
    None => return,
  };
  let (y, _, gj) = ym_of_g(g);
  if y < 1 {
    return;
  }
  let chars = match c09_model(civ, tm, birth) {
    Some(c) => c,
    None => return,
  };
  // forward <=> (year stem Yang) == (man)
  let yang = year_pillar(y) % 2 == 0;
  let forward = yang == man;
  let gov = if forward { gj + 2 } else { gj };
  let jie = tm.t[gov].inst;
  if jie == i64::MIN {
    return;
  }
  loc.states += 1;
  if (jie - birth).abs() < 120 || birth % 86400 >= 86340 {
    loc.nontrivial += 1;
  }
  let gender = if man { Gender::MAN } else { Gender::WOMAN };
  for st in [Strat::Default, Strat::China95, Strat::Sect1, Strat::Sect2] {
    let c = counts(st, civ, birth, jie);
    let ends = add_calendar(civ, birth, c);
    if ends.is_empty() {
      continue; // limit would end after 9999-12-31: outside the claim
    }
    loc.transitions += 1;
    let key = format!("{} {} {:?}", fmt_inst(civ, birth), if man { "man" } else { "woman" }, st);
    let rp = vec!["case".to_string(), birth.to_string(), (man as u8).to_string()];
    let r = guard(|| {
      let bt = mk_time(civ, birth);
      match st {
        Strat::Default => {
          let cl = ChildLimit::from_solar_time(bt, gender);
          let o = Obs {
            forward: Some(cl.is_forward()),
            counts: Counts { y: cl.get_year_count() as i64, m: cl.get_month_count() as i64, d: cl.get_day_count() as i64, h: cl.get_hour_count() as i64, mi: cl.get_minute_count() as i64 },
            start: inst_of(civ, &cl.get_start_time()),
            end: inst_of(civ, &cl.get_end_time()),
          };
          // fortunes
          let end_year = cl.get_end_time().get_year() as i64;
          let birth_year = cl.get_start_time().get_year() as i64;
          let mut f = Vec::new();
          let d0 = cl.get_start_decade_fortune();
          for k in [0isize, 1, 2, 7] {
            let d = d0.next(k);
            f.push(format!("decade{}:{}:{}-{}:{}-{}", k, d.get_sixty_cycle().get_name(), d.get_start_age(), d.get_end_age(), d.get_start_sixty_cycle_year().get_year(), d.get_end_sixty_cycle_year().get_year()));
          }
          let f0 = cl.get_start_fortune();
          for j in [0isize, 1, 9, 10] {
            let x = f0.next(j);
            f.push(format!("year{}:{}:{}:{}", j, x.get_sixty_cycle().get_name(), x.get_age(), x.get_sixty_cycle_year().get_year()));
          }
          // the remaining getters: gender, ages, the decade the limit itself belongs to (index -1), a decade's first yearly
          // fortune, the fortune's name, and the deprecated lunar-year getters (= sexagenary-year getters shifted by the
          // birth's lunar-year offset)
          #[allow(deprecated)]
          {
            let off = cl.get_start_time().get_lunar_hour().get_year() - cl.get_start_time().get_year();
            let d2 = d0.next(2);
            let x3 = f0.next(3);
            let pre = cl.get_decade_fortune();
            let sf = d2.get_start_fortune();
            let mut extra: Vec<(&str, String, String)> = Vec::new();
            extra.push(("get_gender", format!("{:?}", cl.get_gender() == gender), "true".into()));
            extra.push(("get_start_age/get_end_age", format!("{} {}", cl.get_start_age(), cl.get_end_age()), format!("1 {}", (end_year - birth_year).max(1))));
            extra.push(("get_decade_fortune", format!("{} {}", pre.get_index(), pre.next(1).get_sixty_cycle().get_name()), format!("-1 {}", d0.get_sixty_cycle().get_name())));
            extra.push(("DecadeFortune::get_start_fortune", format!("{} {} {}", sf.get_index(), sf.get_age(), sf.get_sixty_cycle_year().get_year()), format!("20 {} {}", d2.get_start_age(), d2.get_start_sixty_cycle_year().get_year())));
            extra.push(("Fortune::get_name", x3.get_name(), x3.get_sixty_cycle().get_name()));
            extra.push(("ChildLimit::get_end_lunar_year", cl.get_end_lunar_year().get_year().to_string(), (cl.get_end_sixty_cycle_year().get_year() + off).to_string()));
            extra.push(("DecadeFortune::get_start_lunar_year/get_end_lunar_year", format!("{} {}", d2.get_start_lunar_year().get_year(), d2.get_end_lunar_year().get_year()), format!("{} {}", d2.get_start_sixty_cycle_year().get_year() + off, d2.get_end_sixty_cycle_year().get_year() + off)));
            extra.push(("Fortune::get_lunar_year", x3.get_lunar_year().get_year().to_string(), (x3.get_sixty_cycle_year().get_year() + off).to_string()));
            for (what, got, want) in extra {
              if got != want {
                f.push(format!("GETTER {}: {} (model {})", what, got, want));
              }
            }
          }
          let ec = cl.get_eight_char();
          (o, Some((end_year, birth_year, f, ec.get_month().get_name(), ec.get_hour().get_name(), ec.get_name())))
        }
        _ => {
          let term = SolarTerm::from_index((gov / 24) as isize, (gov % 24) as isize);
          let info = match st {
            Strat::China95 => China95ChildLimitProvider::new().get_info(bt, term),
            Strat::Sect1 => LunarSect1ChildLimitProvider::new().get_info(bt, term),
            _ => LunarSect2ChildLimitProvider::new().get_info(bt, term),
          };
          (info_obs(civ, &info), None)
        }
      }
    });
    match r {
      Ok((o, fort)) => {
        if let Some(f) = o.forward {
          if f != forward {
            ctx.violation("direction", key.clone(), format!("is_forward={} model {} (year pillar {} is {}, {})", f, forward, pillar_name(year_pillar(y)), if yang { "Yang" } else { "Yin" }, if man { "man" } else { "woman" }), rp.clone());
            continue;
          }
        }
        if o.counts != c {
          ctx.violation("counts", key.clone(), format!("counts {:?}, model {:?} from |birth - governing Jie {}| = {} s", o.counts, c, fmt_inst(civ, jie), (jie - birth).abs()), rp.clone());
        }
        if o.start != Some(birth) {
          ctx.violation("end_time", key.clone(), format!("start time {:?} is not the birth instant", o.start.map(|x| fmt_inst(civ, x))), rp.clone());
        }
        match o.end {
          Some(e) => {
            if !ends.contains(&e) || e < birth || e - birth > 11 * 366 * 86400 {
              ctx.violation("end_time", key.clone(), format!("end {} ; model birth + {:?} = {:?}", fmt_inst(civ, e), c, ends.iter().map(|x| fmt_inst(civ, *x)).collect::<Vec<_>>()), rp.clone());
            }
          }
          None => ctx.violation("end_time", key.clone(), "end time is not a valid instant".into(), rp.clone()),
        }
        if let Some((end_year, birth_year, f, mp, hp, name)) = fort {
          if name != chars.join(" ") {
            continue; // eight characters themselves are C09's business
          }
          let sgn: i64 = if forward { 1 } else { -1 };
          let mi = pillar_idx(&mp).unwrap() as i64;
          let hi = pillar_idx(&hp).unwrap() as i64;
          let base_age = end_year - birth_year + 1;
          let mut want = Vec::new();
          for k in [0i64, 1, 2, 7] {
            want.push(format!("decade{}:{}:{}-{}:{}-{}", k, pillar_name(mi + sgn * (k + 1)), base_age + 10 * k, base_age + 10 * k + 9, end_year + 10 * k, end_year + 10 * k + 9));
          }
          for j in [0i64, 1, 9, 10] {
            want.push(format!("year{}:{}:{}:{}", j, pillar_name(hi + sgn * (base_age + j)), base_age + j, end_year + j));
          }
          if end_year + 79 <= 9999 && f != want {
            ctx.violation("fortunes", key.clone(), format!("fortunes {:?}, model {:?}", f, want), rp.clone());
          }
        }
      }
      Err(m) => {
        if end_year_of(civ, &ends) + 80 > 9999 && m.contains("illegal") && st == Strat::Default {
          // fortunes reaching past year 9999 are outside the claim; re-check the limit alone
          let r2 = guard(|| {
            let cl = ChildLimit::from_solar_time(mk_time(civ, birth), gender);
            inst_of(civ, &cl.get_end_time())
          });
          match r2 {
            Ok(Some(e)) if ends.contains(&e) => {}
            other => ctx.violation("end_time", key.clone(), format!("limit: {:?}; model {:?}", other, ends.iter().map(|x| fmt_inst(civ, *x)).collect::<Vec<_>>()), rp.clone()),
          }
        } else {
          ctx.violation("end_time", key.clone(), format!("panics: {}; model birth + {:?} = {:?}", m, c, ends.iter().map(|x| fmt_inst(civ, *x)).collect::<Vec<_>>()), rp.clone());
        }
      }
    }
  }
}

fn end_year_of(civ: &Civil, ends: &[i64]) -> i64 {
  ends.iter().map(|e| civ.date((*e / 86400) as usize).0 as i64).max().unwrap_or(0)
}

fn c09_model(civ: &Civil, tm: &Terms, inst: i64) -> Option<[String; 4]> {
  c09::model_chars_pub(civ, tm, inst)
}

fn year_windows(quick: bool) -> Vec<(i32, i32)> {
  if quick {
    vec![(1581, 1583), (2019, 2025), (1573, 1575)]
  } else {
    vec![(2, 6), (1570, 1590), (1890, 2110), (9985, 9987)]
  }
}

pub fn run(ctx: &Ctx) {
  let civ = Civil::build();
  let tm = Terms::build(ctx, &civ);
  ctx.assume("governing Jie = next (forward) / latest at-or-before (backward) Jie instant of the library's term table; rates as documented per strategy (default: 3 d = 1 y, 1 d = 4 m, 1 h = 5 d, 1 min = 2 h, 1 s = 2 min; China95 / Sect2 minute based; Sect1 by days and double-hours); end = birth + counts by calendar addition (exact day count from the first day of the target month; when October 1582 is the target month the day-number reading is accepted too); limits ending after 9999 and fortunes reaching past 9999 are outside the claim");
  let deltas: Vec<i64> = vec![0, 1, -1, 59, -59, 60, -60, 3600, -3600, 86400, -86400, 3 * 86400, -3 * 86400, 15 * 86400, -15 * 86400, 7 * 86400 + 12345];
  let wins = year_windows(ctx.quick());
  // (1) around every Jie of the windows
  let mut gs: Vec<usize> = Vec::new();
  for &(ya, yb) in &wins {
    for y in ya..=yb {
      for i in (1..24).step_by(2) {
        gs.push(24 * y as usize + i);
      }
    }
  }
  let done = par_chunks(ctx, 0, gs.len(), 2, |a, b, l| {
    for k in a..b {
      let t = tm.t[gs[k]];
      if t.inst == i64::MIN {
        continue;
      }
      for &d in &deltas {
        for man in [true, false] {
          check_case(ctx, &civ, &tm, t.inst + d, man, l);
        }
      }
      l.traces += 1;
    }
  });
  ctx.subspace(&format!("(1) every Jie of years {:?} ({} Jie) x 16 offsets {:?} x 2 genders x 4 strategies", wins, gs.len(), deltas), done, gs.len() as u64 * 32);
  // (2) month / year end births at 23:59:59 and 00:00:00
  let mut days: Vec<usize> = Vec::new();
  for &(ya, yb) in &wins {
    let (a, b) = civ.year_range(ya, yb);
    for o in a..b {
      let d = civ.date(o);
      if d.2 >= 28 || d.2 == 1 || (d.0 == 1582 && d.1 == 10) {
        days.push(o);
      }
    }
  }
  let done = par_chunks(ctx, 0, days.len(), 8, |a, b, l| {
    for k in a..b {
      for s in [86399i64, 0, 43200] {
        for man in [true, false] {
          check_case(ctx, &civ, &tm, days[k] as i64 * 86400 + s, man, l);
        }
      }
    }
  });
  ctx.subspace(&format!("(2) births on days 28-31 and 1 of every month (and every day of October 1582) of those years at 23:59:59 / 00:00:00 / 12:00:00 ({} days) x 2 genders x 4 strategies", days.len()), done, days.len() as u64 * 6);
  // (3) a 997 s lattice across one whole Jie-to-Jie span per era, and the births whose limit lands in October 1582
  let spans: Vec<usize> = if ctx.quick() { vec![24 * 2024 + 3] } else { vec![24 * 3 + 5, 24 * 1582 + 19, 24 * 2024 + 3, 24 * 9986 + 11] };
  let mut lattice: Vec<i64> = Vec::new();
  for &g in &spans {
    let (a, b) = (tm.t[g].inst, tm.t[g + 2].inst);
    let mut t = a;
    while t < b {
      lattice.push(t);
      t += 997;
    }
  }
  // births 1572..1582 whose target month can be October 1582: every day of the same month number, noon
  if !ctx.quick() {
    let (a, b) = civ.year_range(1572, 1582);
    for o in a..b {
      lattice.push(o as i64 * 86400 + 3600 * 13 + 11);
    }
  } else {
    let (a, b) = civ.year_range(1574, 1574);
    for o in a..b {
      lattice.push(o as i64 * 86400 + 3600 * 1 + 11 * 60 + 19);
    }
  }
  let done = par_chunks(ctx, 0, lattice.len(), 16, |a, b, l| {
    for k in a..b {
      for man in [true, false] {
        check_case(ctx, &civ, &tm, lattice[k], man, l);
      }
    }
  });
  ctx.subspace(&format!("(3) 997-second lattice across {} whole Jie-to-Jie span(s) + one birth per day of the years before the 1582 cut-over ({} instants) x 2 genders x 4 strategies", spans.len(), lattice.len()), done, lattice.len() as u64 * 2);
  // (4) limits that end around the end of February of a century year (where the Julian and Gregorian leap rules differ):
  // one birth per day (10:30:00) of the 11 years before the century year, kept when the model end of any strategy falls in
  // 1 Feb..15 Mar of that year
  let cents: Vec<i32> = if ctx.quick() { vec![1500, 1700, 1800, 2000, 2200, 3000, 4000] } else { (1..=99).map(|c| c * 100).collect() };
  let mut sel: Vec<(i64, bool)> = Vec::new();
  for &cy in &cents {
    let lo = civ.ord(cy, 2, 1).unwrap() as i64 * 86400;
    let hi = civ.ord(cy, 3, 15).unwrap() as i64 * 86400 + 86399;
    let (a, b) = civ.year_range(cy - 11, cy);
    for o in a..b {
      let birth = o as i64 * 86400 + 10 * 3600 + 30 * 60;
      let g = match tm.g_of_inst(birth) {
        Some(g) => g,
        None => continue,
      };
      let (y, _, gj) = ym_of_g(g);
      if y < 1 {
        continue;
      }
      for man in [true, false] {
        let forward = (year_pillar(y) % 2 == 0) == man;
        let jie = tm.t[if forward { gj + 2 } else { gj }].inst;
        if jie == i64::MIN {
          continue;
        }
        let hit = [Strat::Default, Strat::China95, Strat::Sect1, Strat::Sect2].iter().any(|st| add_calendar(&civ, birth, counts(*st, &civ, birth, jie)).iter().any(|e| *e >= lo && *e <= hi));
        if hit {
          sel.push((birth, man));
        }
      }
    }
  }
  let done = par_chunks(ctx, 0, sel.len(), 16, |a, b, l| {
    for k in a..b {
      check_case(ctx, &civ, &tm, sel[k].0, sel[k].1, l);
    }
  });
  ctx.subspace(&format!("(4) births (one per day, 10:30:00, of the 11 years before each of {} century years {}) whose model limit ends in 1 Feb..15 Mar of the century year: {} (birth, gender) cases x 4 strategies", cents.len(), if ctx.quick() { format!("{:?}", cents) } else { "100..9900".to_string() }, sel.len()), done, sel.len() as u64);
  // (5) limits that end in the last three months of the range (October..December 9999): one birth per day (12:00:00) of
  // 9988..9999, kept when the model end of any strategy falls there (an end after 9999-12-31 is outside the claim)
  let mut sel5: Vec<(i64, bool)> = Vec::new();
  {
    let lo = civ.ord(9999, 10, 1).unwrap() as i64 * 86400;
    let (a, b) = civ.year_range(9988, 9999);
    for o in a..b {
      let birth = o as i64 * 86400 + 12 * 3600;
      let g = match tm.g_of_inst(birth) {
        Some(g) => g,
        None => continue,
      };
      let (y, _, gj) = ym_of_g(g);
      for man in [true, false] {
        let forward = (year_pillar(y) % 2 == 0) == man;
        let gi = if forward { gj + 2 } else { gj };
        if gi >= tm.t.len() || tm.t[gi].inst == i64::MIN {
          continue;
        }
        let jie = tm.t[gi].inst;
        if [Strat::Default, Strat::China95, Strat::Sect1, Strat::Sect2].iter().any(|st| add_calendar(&civ, birth, counts(*st, &civ, birth, jie)).iter().any(|e| *e >= lo)) {
          sel5.push((birth, man));
        }
      }
    }
  }
  let done = par_chunks(ctx, 0, sel5.len(), 16, |a, b, l| {
    for k in a..b {
      check_case(ctx, &civ, &tm, sel5[k].0, sel5[k].1, l);
    }
  });
  ctx.subspace(&format!("(5) births (one per day, 12:00:00, of 9988..9999) whose model limit ends in October..December 9999: {} (birth, gender) cases x 4 strategies", sel5.len()), done, sel5.len() as u64);
  if ctx.primary() {
    let b = civ.ord(1989, 12, 31).unwrap() as i64 * 86400 + 23 * 3600 + 7 * 60 + 17;
    let g = tm.g_of_inst(b).unwrap();
    let (_, _, gj) = ym_of_g(g);
    let c = counts(Strat::Default, &civ, b, tm.t[gj + 2].inst);
    let r = guard(|| ChildLimit::from_solar_time(mk_time(&civ, b), Gender::MAN).get_end_time().to_string());
    ctx.sample(format!("birth {} man: impl end {:?}; model counts {:?} end {:?}", fmt_inst(&civ, b), r, c, add_calendar(&civ, b, c).iter().map(|x| fmt_inst(&civ, *x)).collect::<Vec<_>>()));
  }
}

pub fn replay(ctx: &Ctx, args: &[String]) {
  let civ = Civil::build();
  let n: Vec<i64> = args[1..].iter().filter_map(|a| a.parse().ok()).collect();
  let y = civ.date((n[0] / 86400) as usize).0 as usize;
  let tm = Terms::build_range(ctx, &civ, y.saturating_sub(1), (y + 1).min(10000));
  println!("replay C16 birth {} {}", fmt_inst(&civ, n[0]), if n[1] == 1 { "man" } else { "woman" });
  let mut l = Local::default();
  check_case(ctx, &civ, &tm, n[0], n[1] == 1, &mut l);
  ctx.add(&l);
}
