//! C18 Almanac lookup tables are total and well-formed for every pillar pair.
//! State = table key (month branch x day pillar, day pillar x hour branch, spirit, year); transition = lookup.
//! Oracle: membership / round trip in the published name lists, plus an independent re-decoding of the three
//! private packed tables from the text of /repo/src/tyme/culture/mod.rs.

use crate::engine::*;
use crate::props::c01::mk;
use crate::props::c12::mk_time;
use crate::refmodel::civil::*;
use crate::refmodel::pillar::*;
use tyme4rs::tyme::culture::{God, KitchenGodSteed, Taboo, GOD_NAMES, NUMBERS, TABOO_NAMES};
use tyme4rs::tyme::lunar::LunarDay;
use tyme4rs::tyme::sixtycycle::SixtyCycle;
use tyme4rs::tyme::Culture;

const SRC: &str = "/repo/src/tyme/culture/mod.rs";

/// the 12 string literals of `static NAME: [&str; 12] = [ ... ];`
fn extract(text: &str, name: &str) -> Option<Vec<String>> {
  let head = format!("static {}: [&str; 12] = [", name);
  let a = text.find(&head)? + head.len();
  let b = a + text[a..].find("];")?;
  let body = &text[a..b];
  let mut out = Vec::new();
  let mut cur: Option<String> = None;
  for c in body.chars() {
    match (&mut cur, c) {
      (None, '"') => cur = Some(String::new()),
      (Some(_), '"') => out.push(cur.take().unwrap()),
      (Some(s), c) => s.push(c),
      _ => {}
    }
  }
  if out.len() == 12 {
    Some(out)
  } else {
    None
  }
}

fn hex_pairs(s: &str) -> Option<Vec<usize>> {
  if s.len() % 2 != 0 || !s.is_ascii() {
    return None;
  }
  (0..s.len()).step_by(2).map(|i| usize::from_str_radix(&s[i..i + 2], 16).ok()).collect()
}

struct Decoded {
  /// gods[month index from 寅][day pillar]
  gods: Option<Vec<Vec<Vec<usize>>>>,
  /// taboo[branch][day pillar] = (recommends, avoids)
  day_taboo: Option<Vec<Vec<(Vec<usize>, Vec<usize>)>>>,
  hour_taboo: Option<Vec<Vec<(Vec<usize>, Vec<usize>)>>>,
}

fn decode(ctx: &Ctx) -> Decoded {
  let text = match std::fs::read_to_string(SRC) {
    Ok(t) => t,
    Err(_) => {
      ctx.note(format!("independent re-decoding skipped: {} not readable", SRC));
      return Decoded { gods: None, day_taboo: None, hour_taboo: None };
    }
  };
  let rp = vec!["tables".to_string()];
  let gods = extract(&text, "DAY_GODS").map(|lits| {
    let mut all = Vec::new();
    for (m, lit) in lits.iter().enumerate() {
      let mut recs: Vec<&str> = lit.split(';').collect();
      if recs.last() == Some(&"") {
        recs.pop(); // a terminating ';' is not a record
      }
      let mut per_day: Vec<Vec<usize>> = vec![Vec::new(); 60];
      let mut seen = vec![false; 60];
      if !recs[0].is_empty() {
        ctx.violation("table_frame", format!("DAY_GODS[{}]", m), "text before the first ';'".into(), rp.clone());
      }
      for r in &recs[1..] {
        match hex_pairs(r) {
          Some(p) if !p.is_empty() => {
            let day = p[0];
            if day >= 60 || seen[day] {
              ctx.violation("table_frame", format!("DAY_GODS[{}] record {:02X}", m, day), format!("record key {:02X} out of range or repeated", day), rp.clone());
              continue;
            }
            seen[day] = true;
            for &g in &p[1..] {
              if g >= GOD_NAMES.len() {
                ctx.violation("table_frame", format!("DAY_GODS[{}] record {:02X}", m, day), format!("spirit index {:02X} beyond the name list of {}", g, GOD_NAMES.len()), rp.clone());
              }
            }
            per_day[day] = p[1..].to_vec();
          }
          _ => ctx.violation("table_frame", format!("DAY_GODS[{}]", m), format!("record '{}' is not a sequence of hex pairs", &r[..r.len().min(12)]), rp.clone()),
        }
      }
      for d in 0..60 {
        if !seen[d] {
          ctx.violation("table_frame", format!("DAY_GODS[{}] record {:02X}", m, d), "record missing".into(), rp.clone());
        }
      }
      all.push(per_day);
    }
    all
  });
  let taboo = |name: &str| {
    extract(&text, name).map(|lits| {
      let mut all = Vec::new();
      for (b, lit) in lits.iter().enumerate() {
        let mut recs: Vec<&str> = lit.split(';').collect();
        if recs.last() == Some(&"") {
          recs.pop(); // a terminating ';' is not a record
        }
        if recs.len() != 60 {
          ctx.violation("table_frame", format!("{}[{}]", name, b), format!("{} records (60 expected)", recs.len()), rp.clone());
        }
        let mut per: Vec<(Vec<usize>, Vec<usize>)> = Vec::new();
        for (d, r) in recs.iter().enumerate() {
          let parts: Vec<&str> = r.split(',').collect();
          if parts.len() != 2 {
            ctx.violation("table_frame", format!("{}[{}] record {}", name, b, d), format!("{} comma-separated parts (2 expected)", parts.len()), rp.clone());
            per.push((vec![], vec![]));
            continue;
          }
          let x = hex_pairs(parts[0]);
          let y = hex_pairs(parts[1]);
          match (x, y) {
            (Some(x), Some(y)) => {
              for &t in x.iter().chain(y.iter()) {
                if t >= TABOO_NAMES.len() {
                  ctx.violation("table_frame", format!("{}[{}] record {}", name, b, d), format!("activity index {:02X} beyond the name list of {}", t, TABOO_NAMES.len()), rp.clone());
                }
              }
              per.push((x, y));
            }
            _ => {
              ctx.violation("table_frame", format!("{}[{}] record {}", name, b, d), "not a sequence of hex pairs".into(), rp.clone());
              per.push((vec![], vec![]));
            }
          }
        }
        all.push(per);
      }
      all
    })
  };
  let day_taboo = taboo("DAY_TABOO");
  let hour_taboo = taboo("HOUR_TABOO");
  if gods.is_none() || day_taboo.is_none() || hour_taboo.is_none() {
    ctx.note("independent re-decoding (partly) skipped: a table literal was not found in the source text".into());
  }
  Decoded { gods, day_taboo, hour_taboo }
}

fn pillar_with_branch(b: usize) -> SixtyCycle {
  // the first pillar carrying that branch
  SixtyCycle::from_index(b as isize)
}

fn names_ok<T: Culture>(v: &[T], names: &[&str]) -> Option<String> {
  for x in v {
    if !names.contains(&x.get_name().as_str()) {
      return Some(x.get_name());
    }
  }
  None
}

fn check_day_pair(ctx: &Ctx, dec: &Decoded, mb: usize, day: usize, loc: &mut Local) {
  loc.states += 1;
  loc.transitions += 3;
  let key = format!("month {} day {:02}", BRANCHES[mb], day);
  let rp = vec!["daypair".to_string(), mb.to_string(), day.to_string()];
  let r = guard(|| {
    let m = pillar_with_branch(mb);
    let d = SixtyCycle::from_index(day as isize);
    (God::get_day_gods(m.clone(), d.clone()), Taboo::get_day_recommends(m.clone(), d.clone()), Taboo::get_day_avoids(m, d))
  });
  match r {
    Ok((g, rec, av)) => {
      if g.is_empty() {
        ctx.violation("day_gods", key.clone(), "no spirit for this day".into(), rp.clone());
      }
      if let Some(n) = names_ok(&g, &GOD_NAMES) {
        ctx.violation("day_gods", key.clone(), format!("'{}' is not a published spirit name", n), rp.clone());
      }
      for x in &g {
        if guard(|| God::from_name(&x.get_name()).get_index()).ok() != Some(x.get_index()) && GOD_NAMES.iter().position(|n| *n == x.get_name()) != Some(x.get_index()) {
          ctx.violation("day_gods", key.clone(), format!("spirit {} does not round-trip through from_name", x.get_name()), rp.clone());
        }
      }
      if names_ok(&rec, &TABOO_NAMES).is_some() || names_ok(&av, &TABOO_NAMES).is_some() {
        ctx.violation("day_taboo", key.clone(), "an entry is not a published activity name".into(), rp.clone());
      }
      for x in &rec {
        if av.iter().any(|y| y.get_index() == x.get_index()) {
          ctx.violation("day_taboo", key.clone(), format!("'{}' is both recommended and avoided", x.get_name()), rp.clone());
        }
      }
      if let Some(gd) = &dec.gods {
        let want = &gd[(mb + 10) % 12][day];
        let got: Vec<usize> = g.iter().map(|x| x.get_index()).collect();
        if &got != want {
          ctx.violation("day_gods", key.clone(), format!("spirits {:?} but the table record decodes to {:?}", got, want), rp.clone());
        }
      }
      if let Some(td) = &dec.day_taboo {
        if td[mb].len() > day {
          let (wr, wa) = &td[mb][day];
          let gr: Vec<usize> = rec.iter().map(|x| x.get_index()).collect();
          let ga: Vec<usize> = av.iter().map(|x| x.get_index()).collect();
          if &gr != wr || &ga != wa {
            ctx.violation("day_taboo", key.clone(), format!("recommends {:?} avoids {:?} but the table record decodes to {:?} / {:?}", gr, ga, wr, wa), rp.clone());
          }
        }
      }
    }
    Err(m) => ctx.violation("day_gods", key, format!("lookup panics: {}", m), rp),
  }
}

fn check_hour_pair(ctx: &Ctx, dec: &Decoded, day: usize, hb: usize, loc: &mut Local) {
  loc.states += 1;
  loc.transitions += 2;
  let key = format!("day {:02} hour {}", day, BRANCHES[hb]);
  let rp = vec!["hourpair".to_string(), day.to_string(), hb.to_string()];
  let r = guard(|| {
    let d = SixtyCycle::from_index(day as isize);
    let h = pillar_with_branch(hb);
    (Taboo::get_hour_recommends(d.clone(), h.clone()), Taboo::get_hour_avoids(d, h))
  });
  match r {
    Ok((rec, av)) => {
      if names_ok(&rec, &TABOO_NAMES).is_some() || names_ok(&av, &TABOO_NAMES).is_some() {
        ctx.violation("hour_taboo", key.clone(), "an entry is not a published activity name".into(), rp.clone());
      }
      for x in &rec {
        if av.iter().any(|y| y.get_index() == x.get_index()) {
          ctx.violation("hour_taboo", key.clone(), format!("'{}' is both recommended and avoided", x.get_name()), rp.clone());
        }
      }
      if let Some(td) = &dec.hour_taboo {
        if td[hb].len() > day {
          let (wr, wa) = &td[hb][day];
          let gr: Vec<usize> = rec.iter().map(|x| x.get_index()).collect();
          let ga: Vec<usize> = av.iter().map(|x| x.get_index()).collect();
          if &gr != wr || &ga != wa {
            ctx.violation("hour_taboo", key.clone(), format!("recommends {:?} avoids {:?} but the table record decodes to {:?} / {:?}", gr, ga, wr, wa), rp.clone());
          }
        }
      }
    }
    Err(m) => ctx.violation("hour_taboo", key, format!("lookup panics: {}", m), rp),
  }
}

fn check_steed(ctx: &Ctx, civ: &Civil, y: isize, loc: &mut Local) {
  loc.states += 1;
  loc.transitions += 1;
  let key = format!("{:05}", y);
  let rp = vec!["steed".to_string(), y.to_string()];
  let r = guard(|| {
    let k = KitchenGodSteed::from_lunar_year(y);
    // the year object's own accessor must give the same steed
    let k2 = tyme4rs::tyme::lunar::LunarYear::from_year(y).get_kitchen_god_steed();
    if k2.get_mouse() != k.get_mouse() || k2.get_people_hoes() != k.get_people_hoes() || k2.get_gold() != k.get_gold() || k2.get_name() != "灶马头" || k.to_string() != k2.to_string() {
      panic!("LunarYear::get_kitchen_god_steed differs from KitchenGodSteed::from_lunar_year: {} vs {}", k2, k);
    }
    let first = LunarDay::from_ymd(y, 1, 1);
    let jd = (first.get_lunar_month().get_first_julian_day().get_day() + 0.5).floor() as i64;
    (vec![k.get_mouse(), k.get_grass(), k.get_cattle(), k.get_flower(), k.get_dragon(), k.get_horse(), k.get_chicken(), k.get_silkworm(), k.get_pig(), k.get_field(), k.get_cake(), k.get_gold(), k.get_people_cakes(), k.get_people_hoes()], jd)
  });
  let _ = civ;
  match r {
    Ok((v, jd)) => {
      let p = day_pillar(jd);
      let (s, b) = ((p % 10) as usize, (p % 12) as usize);
      let nb = |t: usize| NUMBERS[(t + 12 - b) % 12];
      let ns = |t: usize| NUMBERS[(t + 10 - s) % 10];
      let want = vec![
        format!("{}鼠偷粮", nb(0)),
        format!("草子{}分", nb(0)),
        format!("{}牛耕田", nb(1)),
        format!("花收{}分", nb(3)),
        format!("{}龙治水", nb(4)),
        format!("{}马驮谷", nb(6)),
        format!("{}鸡抢米", nb(9)),
        format!("{}姑看蚕", nb(9)),
        format!("{}屠共猪", nb(11)),
        format!("甲田{}分", ns(0)),
        format!("{}人分饼", ns(2)),
        format!("{}日得金", ns(7)),
        format!("{}人{}丙", nb(2), ns(2)),
        format!("{}人{}锄", nb(2), ns(3)),
      ];
      if v != want {
        ctx.violation("kitchen_god", key, format!("attributes {:?}; model (days from the New-Year pillar {} to the named stem/branch, counted from one) {:?}", v, pillar_name(p), want), rp);
      }
    }
    Err(m) => ctx.violation("kitchen_god", key, format!("panics: {}", m), rp),
  }
}

pub fn run(ctx: &Ctx) {
  let civ = Civil::build();
  ctx.assume("name lists GOD_NAMES / TABOO_NAMES / NUMBERS are the published reference; the three packed tables are re-decoded independently from the source text (records framed by ';' / ',', two hex digits per entry); lunar years 0..9999 for the kitchen-god steed (year -1 has no constructible first month)");
  let dec = decode(ctx);
  let hour_first = part().0 % 2 == 1;
  let mut l = Local::default();
  // both orders of touching the two activity tables are explored (worker 0: day table first, worker 1: hour table first)
  let pass_day = |l: &mut Local| {
    for mb in 0..12 {
      for day in 0..60 {
        check_day_pair(ctx, &dec, mb, day, l);
      }
    }
  };
  let pass_hour = |l: &mut Local| {
    for day in 0..60 {
      for hb in 0..12 {
        check_hour_pair(ctx, &dec, day, hb, l);
      }
    }
  };
  if hour_first {
    pass_hour(&mut l);
    pass_day(&mut l);
    pass_hour(&mut l);
  } else {
    pass_day(&mut l);
    pass_hour(&mut l);
    pass_day(&mut l);
  }
  ctx.subspace("all 720 (month branch, day pillar) pairs and all 720 (day pillar, hour branch) pairs, each table visited before and after the other one (two workers, two orders): no failure, entries in the name lists, >= 1 spirit, recommends and avoids disjoint, equal to the independent re-decoding", true, 1440);
  // spirits: luck class consistent with the list split
  for i in 0..GOD_NAMES.len() {
    l.transitions += 1;
    let r = guard(|| {
      let g = God::from_index(i as isize);
      (g.get_luck().get_index(), g.get_name(), God::from_name(GOD_NAMES[i]).get_index())
    });
    match r {
      Ok((luck, name, idx)) => {
        let want = if i < 60 { 0 } else { 1 };
        if luck != want || name != GOD_NAMES[i] || idx != GOD_NAMES.iter().position(|n| *n == GOD_NAMES[i]).unwrap() {
          ctx.violation("god_luck", format!("spirit {:03}", i), format!("{}: luck class {} (model {}), from_name index {}", name, luck, want, idx), vec!["spirit".into(), i.to_string()]);
        }
      }
      Err(m) => ctx.violation("god_luck", format!("spirit {:03}", i), format!("panics: {}", m), vec!["spirit".into(), i.to_string()]),
    }
  }
  ctx.subspace("all 151 spirits: luck class <=> position in the list (first 60 auspicious), name round trip", true, 151);
  ctx.add(&l);
  // accessors on 60 consecutive days x 12 double-hours in 3 eras
  let mut days: Vec<usize> = Vec::new();
  for s in [(2024, 1, 1), (1582, 9, 1), (500, 6, 1)] {
    let o = civ.ord(s.0, s.1, s.2).unwrap();
    days.extend(o..o + 120);
  }
  let done = par_chunks(ctx, 0, days.len(), 4, |a, b, loc| {
    for i in a..b {
      let d = civ.date(days[i]);
      loc.states += 1;
      loc.transitions += 3 + 48;
      let r = guard(|| {
        let sd = mk(d);
        let sc = sd.get_sixty_cycle_day();
        let ld = sd.get_lunar_day();
        let direct = (God::get_day_gods(sc.get_month(), sc.get_sixty_cycle()), Taboo::get_day_recommends(sc.get_month(), sc.get_sixty_cycle()), Taboo::get_day_avoids(sc.get_month(), sc.get_sixty_cycle()));
        let same = sc.get_gods() == direct.0 && ld.get_gods() == direct.0 && sc.get_recommends() == direct.1 && ld.get_recommends() == direct.1 && sc.get_avoids() == direct.2 && ld.get_avoids() == direct.2;
        let mut hours_ok = true;
        for h in 0..24 {
          let st = mk_time(&civ, days[i] as i64 * 86400 + h * 3600 + 60);
          let lh = st.get_lunar_hour();
          let sh = st.get_sixty_cycle_hour();
          let dr = Taboo::get_hour_recommends(sh.get_day(), sh.get_sixty_cycle());
          let da = Taboo::get_hour_avoids(sh.get_day(), sh.get_sixty_cycle());
          hours_ok &= lh.get_recommends() == dr && sh.get_recommends() == dr && lh.get_avoids() == da && sh.get_avoids() == da;
        }
        (same, hours_ok, direct.0.len())
      });
      match r {
        Ok((same, hours_ok, n)) => {
          if !same || !hours_ok || n == 0 {
            ctx.violation("accessors", fmt_ymd(d), format!("day accessors agree with the table lookups: {}; hour accessors: {}; spirits {}", same, hours_ok, n), vec!["accessor".into(), days[i].to_string()]);
          }
        }
        Err(m) => ctx.violation("accessors", fmt_ymd(d), format!("panics: {}", m), vec!["accessor".into(), days[i].to_string()]),
      }
    }
  });
  ctx.subspace("accessors of SixtyCycleDay / LunarDay / LunarHour / SixtyCycleHour on 3 x 120 consecutive days x all 24 clock hours (incl. 23:00, where the day pillar rolls) agree with the direct table lookups", done, days.len() as u64);
  let done = par_chunks(ctx, 0, 10000, 100, |a, b, loc| {
    for y in a..b {
      check_steed(ctx, &civ, y as isize, loc);
    }
    loc.traces += 1;
  });
  ctx.subspace("kitchen-god steed of lunar years 0..9999: 14 attributes = steps from the New-Year day pillar, numbers in 一..十二", done, 10000);
  if ctx.primary() {
    let r = guard(|| God::get_day_gods(pillar_with_branch(2), SixtyCycle::from_index(0)).iter().map(|g| g.get_name()).collect::<Vec<_>>());
    ctx.sample(format!("寅 month, 甲子 day: spirits {:?}; re-decoded record {:?}", r, dec.gods.as_ref().map(|g| g[0][0].clone())));
    let r = guard(|| KitchenGodSteed::from_lunar_year(2024).get_dragon());
    ctx.sample(format!("kitchen god 2024: {:?}", r));
  }
}

pub fn replay(ctx: &Ctx, args: &[String]) {
  let civ = Civil::build();
  let dec = decode(ctx);
  let n: Vec<i64> = args[1..].iter().filter_map(|a| a.parse().ok()).collect();
  let mut l = Local::default();
  match args[0].as_str() {
    "daypair" => {
      // replay in both orders: after the mirrored hour lookup and cold
      check_hour_pair(ctx, &dec, n[1] as usize, n[0] as usize, &mut l);
      check_day_pair(ctx, &dec, n[0] as usize, n[1] as usize, &mut l);
    }
    "hourpair" => {
      check_day_pair(ctx, &dec, n[1] as usize, n[0] as usize, &mut l);
      check_hour_pair(ctx, &dec, n[0] as usize, n[1] as usize, &mut l);
    }
    "steed" => check_steed(ctx, &civ, n[0] as isize, &mut l),
    _ => {
      println!("replay C18: re-decoding the tables and re-running the complete table pass");
      run(ctx);
    }
  }
  ctx.add(&l);
}
