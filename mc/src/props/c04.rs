//! C04 Month numbers and the leap month follow the no-major-term rule, judged against the library's own
//! new-moon days (lunation table) and calendar-making term days (SolarTerm::get_cursory_julian_day).
//! State = one sui (winter-solstice month to winter-solstice month); transition = one lunation of the sui
//! classified by the rule and compared with the label the implementation gives it.

use crate::engine::*;
use crate::refmodel::lunar::*;
use std::sync::Mutex;
use tyme4rs::tyme::lunar::{LunarMonth, LunarYear};
use tyme4rs::tyme::solar::SolarTerm;

/// integer JD (noon) of the calendar-making day of term `i` of `SolarTerm::from_index(y, i)`
fn term_day(y: isize, i: isize) -> i64 {
  (SolarTerm::from_index(y, i).get_cursory_julian_day() + 2451545.0 + 0.5).floor() as i64
}

pub struct Zhong {
  /// zq[y] = the 12 major-term days of from_index(y, 0,2,..,22): winter solstice of Dec y-1 .. minor snow of Nov y
  pub zq: Vec<[i64; 12]>,
}

pub fn build_zhong(ctx: &Ctx, ylo: isize, yhi: isize) -> Zhong {
  let out: Mutex<Vec<(usize, [i64; 12])>> = Mutex::new(Vec::new());
  par_chunks_all(ctx, ylo as usize, yhi as usize + 1, 50, |a, b, _| {
    let mut loc = Vec::new();
    for y in a..b {
      let mut z = [0i64; 12];
      for k in 0..12 {
        z[k] = guard(|| term_day(y as isize, 2 * k as isize)).unwrap_or(i64::MIN);
      }
      loc.push((y, z));
    }
    out.lock().unwrap().extend(loc);
  });
  let mut zq = vec![[i64::MIN; 12]; 10002];
  for (y, z) in out.into_inner().unwrap() {
    zq[y] = z;
  }
  Zhong { zq }
}

/// the same major term addressed with an index below 0 (from the next year) or above 23 (from the previous year) is the same term
fn check_addressing(ctx: &Ctx, z: &Zhong, y: isize, loc: &mut Local) {
  for k in 0..12isize {
    let want = z.zq[y as usize][k as usize];
    if want == i64::MIN {
      continue;
    }
    loc.transitions += 2;
    let r = guard(|| (term_day(y + 1, 2 * k - 24), term_day(y - 1, 2 * k + 24), SolarTerm::from_index(y + 1, 2 * k - 24).get_year(), SolarTerm::from_index(y - 1, 2 * k + 24).get_year()));
    let key = format!("{:04} term {}", y, 2 * k);
    match r {
      Ok((a, b, ya, yb)) => {
        if a != want || b != want || ya != y || yb != y {
          ctx.violation("term_addressing", key, format!("from_index({}, {}) is term-year {} on calendar-making day JD {}; from_index({}, {}) is term-year {} on JD {}; from_index({}, {}) is on JD {}", y + 1, 2 * k - 24, ya, a, y - 1, 2 * k + 24, yb, b, y, 2 * k, want), vec!["sui".into(), y.to_string()]);
        }
      }
      Err(m) => ctx.violation("term_addressing", key, format!("panics: {}", m), vec!["sui".into(), y.to_string()]),
    }
  }
}

/// only the rule's leap month exists: LunarMonth::new(y, -m) is accepted iff m = get_leap_month (which check_sui ties to the rule)
fn check_only_leap(ctx: &Ctx, y: isize, loc: &mut Local) {
  let r = guard(|| {
    let lp = tyme4rs::tyme::lunar::LunarYear::from_year(y).get_leap_month();
    (lp, (1..=12isize).map(|m| tyme4rs::tyme::lunar::LunarMonth::new(y, -m).is_ok()).collect::<Vec<_>>())
  });
  loc.transitions += 12;
  match r {
    Ok((lp, acc)) => {
      for m in 1..=12usize {
        if acc[m - 1] != (m == lp) {
          ctx.violation("only_leap", format!("{:04}-{:02}L", y, m), format!("LunarMonth::new({}, -{}) accepted={} but the year's leap month is {} (0 = none)", y, m, acc[m - 1], lp), vec!["sui".into(), y.to_string()]);
        }
      }
    }
    Err(m) => ctx.violation("only_leap", format!("{:04}", y), format!("panics: {}", m), vec!["sui".into(), y.to_string()]),
  }
}

fn find_lun(t: &LunTable, day: i64, hint_year: isize) -> Option<usize> {
  let s = t.year_start[(hint_year - 1).max(0) as usize] as usize;
  let e = t.year_start[(hint_year + 2).min(10001) as usize] as usize;
  (s..e).find(|&i| t.l[i].ok && t.l[i].jd <= day && day < t.l[i].jd + t.l[i].days as i64)
}

/// check the sui that starts with the winter solstice of December `y`
fn check_sui(ctx: &Ctx, t: &LunTable, z: &Zhong, y: isize, loc: &mut Local) {
  loc.states += 1;
  let key = format!("{:04}", y);
  let rp = vec!["sui".to_string(), y.to_string()];
  let d0 = z.zq[(y + 1) as usize][0];
  let d1 = z.zq[(y + 2) as usize][0];
  let (a, b) = match (find_lun(t, d0, y), find_lun(t, d1, y + 1)) {
    (Some(a), Some(b)) => (a, b),
    _ => {
      ctx.violation("solstice_month", key, format!("no lunar month of the table contains the winter-solstice day JD {} or JD {}", d0, d1), rp);
      return;
    }
  };
  // the month containing the winter solstice is month 11 of lunar year y
  let la = t.l[a];
  loc.transitions += 1;
  if la.y as isize != y || la.m != 11 {
    ctx.violation("solstice_month", key.clone(), format!("winter solstice of Dec {} (JD {}) falls in lunar month {}; the rule makes that month (year {}, month 11)", y, d0, la.key(), y), rp.clone());
  }
  let n = b - a;
  // the major-term days that can fall inside this sui
  let mut terms: Vec<i64> = z.zq[(y + 1) as usize].to_vec();
  terms.push(d1);
  let has_zq = |l: &Lun| terms.iter().any(|&d| l.jd <= d && d < l.jd + l.days as i64);
  let mut leap_pos: Option<usize> = None;
  if n == 13 {
    loc.nontrivial += 1;
    for i in a + 1..b {
      if !has_zq(&t.l[i]) {
        leap_pos = Some(i);
        break;
      }
    }
    if leap_pos.is_none() {
      ctx.violation("leap_rule", key.clone(), "13 lunations between the two solstice months but every one contains a major term".into(), rp.clone());
      return;
    }
    loc.oc("sui with 13 lunations");
  } else if n == 12 {
    loc.oc("sui with 12 lunations");
  } else {
    ctx.violation("leap_rule", key.clone(), format!("{} lunations between the two solstice months (model: 12 or 13)", n), rp.clone());
    return;
  }
  // walk the sui: expected labels
  let mut num: i8 = 11;
  let mut year: i32 = y as i32;
  for i in a + 1..=b {
    loc.transitions += 1;
    let l = t.l[i];
    let (ey, em) = if Some(i) == leap_pos {
      (year, -num)
    } else {
      num += 1;
      if num == 13 {
        num = 1;
        year += 1;
      }
      (year, num)
    };
    if l.y != ey || l.m != em {
      ctx.violation(
        "leap_rule",
        key.clone(),
        format!(
          "sui from Dec {}: lunation starting JD {} is labelled {} by the library; the no-major-term rule labels it {} ({} lunations in the sui{})",
          y,
          l.jd,
          l.key(),
          lkey(ey as isize, em as isize),
          n,
          match leap_pos {
            Some(p) => format!(", first lunation without a major term starts JD {}", t.l[p].jd),
            None => String::new(),
          }
        ),
        rp.clone(),
      );
      return;
    }
    // the accessor view of the same label
    if l.m < 0 {
      let lm = guard(|| LunarYear::from_year(l.y as isize).get_leap_month()).unwrap_or(99);
      let mw = guard(|| LunarMonth::from_ym(l.y as isize, l.m as isize).get_month_with_leap()).unwrap_or(0);
      if lm as i8 != -l.m || mw as i8 != l.m {
        ctx.violation("leap_accessors", key.clone(), format!("leap lunation {}: get_leap_month()={} get_month_with_leap()={}", l.key(), lm, mw), rp.clone());
      }
    }
  }
  loc.traces += 1;
}

fn excluded(y: isize) -> bool {
  y == 237 || y == 238 || y == 239
}

pub fn run(ctx: &Ctx) {
  ctx.assume("relational oracle (no independent astronomy): the library's own new-moon days and its own calendar-making major-term days; the rule itself is the classical one (solstice month = 11; first month without a major term in a 13-month sui is the leap month)");
  ctx.assume("claim covers sui starting in years 27..9997 except 237, 238, 239 (the hard-coded Jingchu reform), as the property states");
  let t = LunTable::build(ctx, 0, 9999);
  let z = build_zhong(ctx, 1, 10000);
  // the whole space costs ~3 s, so both tiers enumerate it completely
  let years: Vec<isize> = (27..=9997).collect();
  let years: Vec<isize> = years.into_iter().filter(|y| !excluded(*y)).collect();
  let done = par_chunks(ctx, 0, years.len(), 50, |a, b, l| {
    for i in a..b {
      check_sui(ctx, &t, &z, years[i], l);
    }
  });
  ctx.subspace(&format!("sui: {} winter-solstice-to-winter-solstice spans ({}), every lunation of each labelled by the rule", years.len(), "all of 27..9997 except 237-239"), done, years.len() as u64);
  let done = par_chunks(ctx, 2, 9999, 50, |a, b, l| {
    for y in a..b {
      check_addressing(ctx, &z, y as isize, l);
      if y >= 27 && !excluded(y as isize) {
        check_only_leap(ctx, y as isize, l);
      }
    }
  });
  ctx.subspace("term addressing: the 12 major terms of every year 2..9998 fetched with index i-24 from the next year and i+24 from the previous year; only the leap month of each year 27..9998 is constructible as a leap month", done, 9997 * 12);
  // every leap month of the table must have been produced by some sui (no leap month in a 12-lunation sui is implied by the walk)
  for y in [2020isize, 2033, 1984, 7013] {
    let d0 = z.zq[(y + 1) as usize][0];
    if let (Some(a), Some(b)) = (find_lun(&t, d0, y), find_lun(&t, z.zq[(y + 2) as usize][0], y + 1)) {
      let labels: Vec<String> = (a..=b).map(|i| t.l[i].key()).collect();
      ctx.sample(format!("sui from Dec {}: solstice JD {} in {}; {} lunations: {}", y, d0, t.l[a].key(), b - a, labels.join(" ")));
    }
  }
}

pub fn replay(ctx: &Ctx, args: &[String]) {
  let y: isize = args[1].parse().unwrap();
  let t = LunTable::build(ctx, (y - 2).max(0), (y + 3).min(9999));
  let z = build_zhong(ctx, (y - 1).max(1), y + 3);
  let mut l = Local::default();
  println!("replay C04 sui from December {}: solstice days JD {} / JD {}; major-term days {:?}", y, z.zq[(y + 1) as usize][0], z.zq[(y + 2) as usize][0], z.zq[(y + 1) as usize]);
  for lun in t.year_slice(y).iter().chain(t.year_slice(y + 1).iter()) {
    println!("  library lunation {} starts JD {} days {}", lun.key(), lun.jd, lun.days);
  }
  check_sui(ctx, &t, &z, y, &mut l);
  if y >= 2 && y <= 9998 {
    check_addressing(ctx, &z, y, &mut l);
  }
  ctx.add(&l);
}
