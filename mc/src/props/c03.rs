//! C03 Lunar months tile time. State = lunation (every month of lunar years 0..9999, ~123.7k);
//! transitions = next(n) for a step alphabet; oracle = the chain laid out in model order must abut exactly,
//! and every listing / count / stepping accessor must agree with that chain.

use crate::engine::*;
use crate::refmodel::lunar::*;
use tyme4rs::tyme::lunar::{LunarMonth, LunarYear};
use tyme4rs::tyme::Tyme;

fn alphabet(quick: bool) -> Vec<isize> {
  let mut v: Vec<isize> = Vec::new();
  if quick {
    for n in [1, 2, 3, 12, 13] {
      v.push(n);
      v.push(-n);
    }
  } else {
    for n in 1..=14 {
      v.push(n);
      v.push(-n);
    }
    for n in [25, 100, 235, 236, 470, 1237] {
      v.push(n);
      v.push(-n);
    }
  }
  v.push(0);
  v
}

fn rp(l: &Lun) -> Vec<String> {
  vec!["lun".into(), l.y.to_string(), l.m.to_string()]
}

fn check_lun(ctx: &Ctx, t: &LunTable, i: usize, alpha: &[isize], loc: &mut Local) {
  let l = t.l[i];
  loc.states += 1;
  if !l.ok {
    ctx.violation("construct", l.key(), format!("LunarMonth::from_ym({},{}) refused although the year's month list (model order) contains it", l.y, l.m), rp(&l));
    return;
  }
  if l.m < 0 || l.m == 1 || l.m == 12 {
    loc.nontrivial += 1;
  }
  // memo answer == cache-free constructor
  loc.transitions += 1;
  match guard(|| LunarMonth::new(l.y as isize, l.m as isize)) {
    Ok(Ok(m)) => {
      let jd = (m.get_first_julian_day().get_day() + 0.5).floor() as i64;
      if m.get_day_count() as u8 != l.days || jd != l.jd || m.get_index_in_year() as u8 != l.idx || m.get_year() as i32 != l.y || m.get_month_with_leap() as i8 != l.m {
        ctx.violation("memo", l.key(), format!("from_ym gives days={} jd={} idx={}, cache-free constructor gives y={} m={} days={} jd={} idx={}", l.days, l.jd, l.idx, m.get_year(), m.get_month_with_leap(), m.get_day_count(), jd, m.get_index_in_year()), rp(&l));
      }
    }
    _ => ctx.violation("memo", l.key(), "cache-free constructor refuses a month that from_ym returned".into(), rp(&l)),
  }
  // the month's day list carries the month's own label (first and last element), and a second lookup of the month (memo hit)
  // still reports the same position in the year
  loc.transitions += 1;
  match guard(|| {
    let m = LunarMonth::from_ym(l.y as isize, l.m as isize);
    let ds = m.get_days();
    let lab = |d: &tyme4rs::tyme::lunar::LunarDay| {
      let b = d.get_lunar_month();
      (b.get_year() as i32, b.get_month_with_leap() as i8, (b.get_first_julian_day().get_day() + 0.5).floor() as i64)
    };
    let again = LunarMonth::from_ym(l.y as isize, l.m as isize);
    (ds.len(), lab(&ds[0]), lab(&ds[ds.len() - 1]), again.get_index_in_year(), again.next(1).get_index_in_year(), again.next(1).get_year())
  }) {
    Ok((n, a, b, idx2, nidx, ny)) => {
      if n != l.days as usize || a != (l.y, l.m, l.jd) || b != (l.y, l.m, l.jd) {
        ctx.violation("memo", l.key(), format!("get_days() lists {} days whose first / last element belong to month {:?} / {:?} (model: {} days of {} starting JD {})", n, a, b, l.days, l.key(), l.jd), rp(&l));
      }
      let want_next = if i + 1 < t.l.len() { Some((t.l[i + 1].idx as usize, t.l[i + 1].y as isize)) } else { None };
      if idx2 != l.idx as usize || (l.y < 9999 && want_next.is_some() && Some((nidx, ny)) != want_next) {
        ctx.violation("memo", l.key(), format!("second lookup: index in year {} (model {}), its next(1) is index {} of year {} (model {:?})", idx2, l.idx, nidx, ny, want_next), rp(&l));
      }
    }
    Err(m) => {
      if l.y < 9999 || l.idx < 11 {
        ctx.violation("memo", l.key(), format!("get_days / second lookup panics: {}", m), rp(&l));
      }
    }
  }
  // length and abutment
  if l.days != 29 && l.days != 30 {
    ctx.violation("length", l.key(), format!("month has {} days (model: 29 or 30)", l.days), rp(&l));
  }
  let pos_in_year = i - t.year_start[l.y as usize] as usize;
  if l.idx as usize != pos_in_year {
    ctx.violation("index_in_year", l.key(), format!("get_index_in_year={} model position={}", l.idx, pos_in_year), rp(&l));
  }
  if i + 1 < t.l.len() && t.l[i + 1].ok {
    let nx = t.l[i + 1];
    loc.transitions += 1;
    let gap = nx.jd - l.jd - l.days as i64;
    if gap != 0 {
      ctx.violation(
        "abut",
        l.key(),
        format!("month {} starts JD {} with {} days, the following month {} starts JD {}: {} day(s) {}", l.key(), l.jd, l.days, nx.key(), nx.jd, gap.abs(), if gap > 0 { "uncovered" } else { "overlap" }),
        rp(&l),
      );
    }
  }
  // stepping (quick tier: the multi-decade steps only from every 5th lunation)
  let big: [isize; 4] = [235, -235, 1237, -1237];
  let quick_big = alpha.len() < 20 && i % 5 == 0;
  for &n in alpha.iter().chain(big.iter().filter(|_| quick_big)) {
    let j = i as isize + n;
    if j < 0 || j as usize >= t.l.len() {
      continue;
    }
    let want = t.l[j as usize];
    loc.transitions += 1;
    let r = guard(|| {
      let m = LunarMonth::from_ym(l.y as isize, l.m as isize).next(n);
      (m.get_year() as i32, m.get_month_with_leap() as i8, m.get_day_count() as u8, (m.get_first_julian_day().get_day() + 0.5).floor() as i64)
    });
    match r {
      Ok((y, m, d, jd)) => {
        if y != want.y || m != want.m || (want.ok && (d != want.days || jd != want.jd)) {
          ctx.violation("next", format!("{} n={:+}", l.key(), n), format!("next({}) = {} (days {}, JD {}), model chain position = {} (days {}, JD {})", n, lkey(y as isize, m as isize), d, jd, want.key(), want.days, want.jd), {
            let mut v = rp(&l);
            v.push(n.to_string());
            v
          });
        }
      }
      Err(e) => ctx.violation("next", format!("{} n={:+}", l.key(), n), format!("next({}) panics: {}; model chain position = {}", n, e, want.key()), {
        let mut v = rp(&l);
        v.push(n.to_string());
        v
      }),
    }
  }
}

fn check_year(ctx: &Ctx, t: &LunTable, y: isize, loc: &mut Local) {
  let sl = t.year_slice(y);
  let leap = t.leap[y as usize] as usize;
  loc.traces += 1;
  let r = guard(|| {
    let ly = LunarYear::from_year(y);
    let ms = ly.get_months();
    (ms.iter().map(|m| (m.get_year() as i32, m.get_month_with_leap() as i8)).collect::<Vec<_>>(), ly.get_month_count(), ly.get_day_count(), ly.get_leap_month())
  });
  loc.transitions += 4;
  let rp = vec!["year".to_string(), y.to_string()];
  let key = format!("{:04}", y);
  match r {
    Ok((ms, count, days, lp)) => {
      let want: Vec<(i32, i8)> = sl.iter().map(|l| (l.y, l.m)).collect();
      if ms != want {
        ctx.violation("year_months", key.clone(), format!("get_months() = {:?}, model order = {:?}", ms.iter().map(|x| x.1).collect::<Vec<_>>(), want.iter().map(|x| x.1).collect::<Vec<_>>()), rp.clone());
      }
      if lp != leap || count != 12 + (leap > 0) as usize || count != sl.len() {
        ctx.violation("year_count", key.clone(), format!("get_leap_month()={} get_month_count()={} listed {}", lp, count, sl.len()), rp.clone());
      }
      let sum: usize = sl.iter().map(|l| l.days as usize).sum();
      if days != sum {
        ctx.violation("year_days", key.clone(), format!("get_day_count()={} but the month lengths sum to {}", days, sum), rp.clone());
      }
      if y < 9999 {
        let nxt = t.year_slice(y + 1);
        if !sl.is_empty() && !nxt.is_empty() && sl[0].ok && nxt[0].ok {
          let span = (nxt[0].jd - sl[0].jd) as usize;
          let okrange = (353..=355).contains(&span) || (383..=385).contains(&span);
          if span != days || !okrange {
            ctx.violation("year_span", key.clone(), format!("new-year day to next new-year day = {} days, get_day_count()={}, month count {} (model: equal, and 353-355 or 383-385)", span, days, count), rp.clone());
          } else if (span > 360) != (leap > 0) {
            ctx.violation("year_span", key.clone(), format!("year of {} days but leap month {}", span, leap), rp.clone());
          }
        }
      }
    }
    Err(e) => ctx.violation("year_months", key.clone(), format!("panics: {}", e), rp.clone()),
  }
  // a year has no other months than the listed ones: leap month -m is constructible iff m is the year's leap month
  for m in 1..=12isize {
    loc.transitions += 1;
    let got = guard(|| LunarMonth::new(y, -m).is_ok()).unwrap_or(false);
    if got != (m as usize == leap) {
      ctx.violation("year_months", format!("{}-{:02}L", key, m), format!("LunarMonth::new({}, {}) accepted={} but the year's leap month is {} (a second label for a lunation the year already lists)", y, -m, got, leap), rp.clone());
    }
  }
}

pub fn run(ctx: &Ctx) {
  ctx.assume("model order of a lunar year: months 1..12, the leap month directly after the regular month of the same number; tiling is checked between every adjacent pair of that order, across year boundaries");
  let t = LunTable::build(ctx, 0, 9999);
  let alpha = alphabet(ctx.quick());
  let n = t.l.len();
  let done = par_chunks(ctx, 0, n, 256, |a, b, l| {
    for i in a..b {
      check_lun(ctx, &t, i, &alpha, l);
    }
  });
  ctx.subspace(&format!("lunations: every month of lunar years 0..9999 ({}), each x step alphabet {:?}", n, alpha), done, n as u64);
  let done = par_chunks(ctx, 0, 10000, 50, |a, b, l| {
    for y in a..b {
      check_year(ctx, &t, y as isize, l);
    }
  });
  ctx.subspace("lunar years 0..9999: month list, month count, leap month, day count vs new-year distance", done, 10000);
  if ctx.primary() {
    let leaps = t.l.iter().filter(|l| l.m < 0).count();
    ctx.outcome("29-day months", t.l.iter().filter(|l| l.days == 29).count() as u64);
    ctx.outcome("30-day months", t.l.iter().filter(|l| l.days == 30).count() as u64);
    ctx.outcome("leap months", leaps as u64);
  }
  for k in [(2020isize, 4isize), (2020, -4), (2033, -11), (23, 12), (9999, 12)] {
    if let Some(p) = t.pos(k.0, k.1) {
      let l = t.l[p];
      ctx.sample(format!("lunation {}: JD {} days {} index {}; following {}", l.key(), l.jd, l.days, l.idx, if p + 1 < n { format!("{} JD {}", t.l[p + 1].key(), t.l[p + 1].jd) } else { "-".into() }));
    }
  }
}

pub fn replay(ctx: &Ctx, args: &[String]) {
  let nums: Vec<isize> = args[1..].iter().filter_map(|a| a.parse().ok()).collect();
  let mut l = Local::default();
  match args[0].as_str() {
    "lun" => {
      let y = nums[0];
      let t = LunTable::build(ctx, (y - 110).max(0), (y + 110).min(9999));
      let p = t.pos(y, nums[1]).expect("lunation in table");
      let alpha: Vec<isize> = if nums.len() > 2 { vec![nums[2]] } else { alphabet(false) };
      let alpha: Vec<isize> = alpha.into_iter().filter(|n| n.abs() < 1200).collect();
      println!("replay C03 lunation {} (JD {}, {} days, index {}), steps {:?}", t.l[p].key(), t.l[p].jd, t.l[p].days, t.l[p].idx, alpha);
      check_lun(ctx, &t, p, &alpha, &mut l);
    }
    _ => {
      let y = nums[0];
      let t = LunTable::build(ctx, (y - 1).max(0), (y + 1).min(9999));
      println!("replay C03 lunar year {}: months {:?}", y, t.year_slice(y).iter().map(|l| (l.m, l.days, l.jd)).collect::<Vec<_>>());
      check_year(ctx, &t, y, &mut l);
    }
  }
  ctx.add(&l);
}
