//! Generic exhaustive explorer support: counters, violation collection, panic capture,
//! 16-way partitioning of an indexable finite state set, deadline, JSON result writer.

use std::collections::BTreeMap;
use std::panic::{catch_unwind, AssertUnwindSafe};
use std::sync::atomic::{AtomicBool, AtomicU64, AtomicUsize, Ordering};
use std::sync::Mutex;
use std::time::{Duration, Instant};

pub const THREADS: usize = 16;
const MAX_STORED_VIOLATIONS: usize = 60000;
const MAX_STORED_PER_CHECK: u64 = 6000;

#[derive(Clone, Debug)]
pub struct Violation {
  pub check: String,
  /// specific failing input, zero padded so that keys of one check sort chronologically
  pub key: String,
  pub detail: String,
  /// argv for `tyme-mc replay <prop> ...`
  pub replay: Vec<String>,
}

pub struct Ctx {
  pub prop: String,
  pub tier: Tier,
  pub seed: u64,
  pub start: Instant,
  pub deadline: Instant,
  pub states: AtomicU64,
  pub transitions: AtomicU64,
  pub traces: AtomicU64,
  pub nontrivial: AtomicU64,
  pub evaluations: AtomicU64,
  pub violation_count: AtomicU64,
  pub timed_out: AtomicBool,
  violations: Mutex<Vec<Violation>>,
  /// per check: number of violations (all, also those not stored)
  per_check: Mutex<BTreeMap<String, u64>>,
  samples: Mutex<Vec<String>>,
  /// named sub-spaces: (name, completed, cases)
  subspaces: Mutex<Vec<(String, bool, u64)>>,
  /// distinct observed outcome classes (name -> count)
  outcomes: Mutex<BTreeMap<String, u64>>,
  notes: Mutex<Vec<String>>,
  assumptions: Mutex<Vec<String>>,
}

#[derive(Copy, Clone, PartialEq, Eq, Debug)]
pub enum Tier {
  Quick,
  Thorough,
}

impl Ctx {
  pub fn new(prop: &str, tier: Tier, seed: u64) -> Self {
    let start = Instant::now();
    let budget = match tier {
      Tier::Quick => Duration::from_secs(env_u64("VERIF_QUICK_BUDGET_S", 120)),
      Tier::Thorough => Duration::from_secs(env_u64("VERIF_THOROUGH_BUDGET_S", 1500)),
    };
    Self {
      prop: prop.to_string(),
      tier,
      seed,
      start,
      deadline: start + budget,
      states: AtomicU64::new(0),
      transitions: AtomicU64::new(0),
      traces: AtomicU64::new(0),
      nontrivial: AtomicU64::new(0),
      evaluations: AtomicU64::new(0),
      violation_count: AtomicU64::new(0),
      timed_out: AtomicBool::new(false),
      violations: Mutex::new(Vec::new()),
      per_check: Mutex::new(BTreeMap::new()),
      samples: Mutex::new(Vec::new()),
      subspaces: Mutex::new(Vec::new()),
      outcomes: Mutex::new(BTreeMap::new()),
      notes: Mutex::new(Vec::new()),
      assumptions: Mutex::new(Vec::new()),
    }
  }

  /// true in the worker that also runs the serial (non-partitioned) sections
  pub fn primary(&self) -> bool {
    part().0 == 0
  }

  pub fn quick(&self) -> bool {
    self.tier == Tier::Quick
  }

  pub fn expired(&self) -> bool {
    if Instant::now() >= self.deadline {
      self.timed_out.store(true, Ordering::Relaxed);
      true
    } else {
      false
    }
  }

  pub fn violation(&self, check: &str, key: String, detail: String, replay: Vec<String>) {
    self.violation_count.fetch_add(1, Ordering::Relaxed);
    let mut pc = self.per_check.lock().unwrap();
    let n = pc.entry(check.to_string()).or_insert(0);
    *n += 1;
    let per = *n;
    drop(pc);
    let mut v = self.violations.lock().unwrap();
    // keep the first ones of every check so that one noisy check does not starve the others
    if per <= MAX_STORED_PER_CHECK && v.len() < MAX_STORED_VIOLATIONS {
      v.push(Violation { check: check.to_string(), key, detail, replay });
    }
  }

  pub fn sample(&self, s: String) {
    let mut v = self.samples.lock().unwrap();
    if v.len() < 12 {
      v.push(s);
    }
  }

  pub fn subspace(&self, name: &str, completed: bool, cases: u64) {
    self.subspaces.lock().unwrap().push((name.to_string(), completed, cases));
    if std::env::var("VERIF_TIMING").is_ok() {
      eprintln!("[timing] {:7.2}s part {:?} after sub-space: {}", self.start.elapsed().as_secs_f64(), part(), &name[..name.len().min(60)]);
    }
  }

  pub fn outcome(&self, name: &str, n: u64) {
    if n == 0 {
      return;
    }
    *self.outcomes.lock().unwrap().entry(name.to_string()).or_insert(0) += n;
  }

  pub fn note(&self, s: String) {
    self.notes.lock().unwrap().push(s);
  }

  pub fn assume(&self, s: &str) {
    self.assumptions.lock().unwrap().push(s.to_string());
  }

  pub fn add(&self, l: &Local) {
    self.states.fetch_add(l.states, Ordering::Relaxed);
    self.transitions.fetch_add(l.transitions, Ordering::Relaxed);
    self.traces.fetch_add(l.traces, Ordering::Relaxed);
    self.nontrivial.fetch_add(l.nontrivial, Ordering::Relaxed);
    self.evaluations.fetch_add(l.evaluations, Ordering::Relaxed);
    for (k, v) in l.outcomes.iter() {
      self.outcome(k, *v);
    }
  }

  pub fn write_result(&self, path: &str) {
    let mut s = String::new();
    s.push_str("{\n");
    s.push_str(&format!("  \"property\": {},\n", js(&self.prop)));
    s.push_str(&format!("  \"tier\": {},\n", js(if self.quick() { "quick" } else { "thorough" })));
    s.push_str(&format!("  \"seed\": {},\n", self.seed));
    s.push_str(&format!("  \"wall_s\": {:.3},\n", self.start.elapsed().as_secs_f64()));
    s.push_str(&format!("  \"states\": {},\n", self.states.load(Ordering::Relaxed)));
    s.push_str(&format!("  \"transitions\": {},\n", self.transitions.load(Ordering::Relaxed)));
    s.push_str(&format!("  \"traces\": {},\n", self.traces.load(Ordering::Relaxed)));
    s.push_str(&format!("  \"nontrivial\": {},\n", self.nontrivial.load(Ordering::Relaxed)));
    s.push_str(&format!("  \"evaluations\": {},\n", self.evaluations.load(Ordering::Relaxed)));
    s.push_str(&format!("  \"timed_out\": {},\n", self.timed_out.load(Ordering::Relaxed)));
    s.push_str(&format!("  \"violation_count\": {},\n", self.violation_count.load(Ordering::Relaxed)));
    let pc = self.per_check.lock().unwrap();
    s.push_str("  \"violations_per_check\": {");
    s.push_str(&pc.iter().map(|(k, v)| format!("{}: {}", js(k), v)).collect::<Vec<_>>().join(", "));
    s.push_str("},\n");
    let oc = self.outcomes.lock().unwrap();
    s.push_str("  \"outcomes\": {");
    s.push_str(&oc.iter().map(|(k, v)| format!("{}: {}", js(k), v)).collect::<Vec<_>>().join(", "));
    s.push_str("},\n");
    let sub = self.subspaces.lock().unwrap();
    s.push_str("  \"subspaces\": [");
    s.push_str(&sub.iter().map(|(n, c, k)| format!("{{\"name\": {}, \"completed\": {}, \"cases\": {}}}", js(n), c, k)).collect::<Vec<_>>().join(", "));
    s.push_str("],\n");
    let sm = self.samples.lock().unwrap();
    s.push_str("  \"samples\": [");
    s.push_str(&sm.iter().map(|x| js(x)).collect::<Vec<_>>().join(", "));
    s.push_str("],\n");
    let nt = self.notes.lock().unwrap();
    s.push_str("  \"notes\": [");
    s.push_str(&nt.iter().map(|x| js(x)).collect::<Vec<_>>().join(", "));
    s.push_str("],\n");
    let asu = self.assumptions.lock().unwrap();
    s.push_str("  \"assumptions\": [");
    s.push_str(&asu.iter().map(|x| js(x)).collect::<Vec<_>>().join(", "));
    s.push_str("],\n");
    let v = self.violations.lock().unwrap();
    s.push_str("  \"violations\": [\n");
    s.push_str(
      &v.iter()
        .map(|x| {
          format!(
            "    {{\"check\": {}, \"key\": {}, \"detail\": {}, \"replay\": [{}]}}",
            js(&x.check),
            js(&x.key),
            js(&x.detail),
            x.replay.iter().map(|a| js(a)).collect::<Vec<_>>().join(", ")
          )
        })
        .collect::<Vec<_>>()
        .join(",\n"),
    );
    s.push_str("\n  ]\n}\n");
    std::fs::write(path, s).expect("write result");
  }
}

pub fn env_u64(name: &str, default: u64) -> u64 {
  std::env::var(name).ok().and_then(|v| v.parse().ok()).unwrap_or(default)
}

/// thread-local counters, merged into the Ctx at the end of a partition
#[derive(Default)]
pub struct Local {
  pub states: u64,
  pub transitions: u64,
  pub traces: u64,
  pub nontrivial: u64,
  pub evaluations: u64,
  pub outcomes: BTreeMap<&'static str, u64>,
}

impl Local {
  pub fn oc(&mut self, k: &'static str) {
    *self.outcomes.entry(k).or_insert(0) += 1;
  }
}

pub fn js(s: &str) -> String {
  let mut o = String::with_capacity(s.len() + 2);
  o.push('"');
  for c in s.chars() {
    match c {
      '"' => o.push_str("\\\""),
      '\\' => o.push_str("\\\\"),
      '\n' => o.push_str("\\n"),
      '\r' => o.push_str("\\r"),
      '\t' => o.push_str("\\t"),
      c if (c as u32) < 0x20 => o.push_str(&format!("\\u{:04x}", c as u32)),
      c => o.push(c),
    }
  }
  o.push('"');
  o
}

/// Run `f` capturing a panic as an observation ("refused"). A panic that is only the
/// collateral of a poisoned lock is reported as such (the message contains "PoisonError").
pub fn guard<T>(f: impl FnOnce() -> T) -> Result<T, String> {
  match catch_unwind(AssertUnwindSafe(f)) {
    Ok(v) => Ok(v),
    Err(e) => {
      let msg = if let Some(s) = e.downcast_ref::<&str>() {
        s.to_string()
      } else if let Some(s) = e.downcast_ref::<String>() {
        s.clone()
      } else {
        "panic".to_string()
      };
      Err(msg)
    }
  }
}

/// like guard, but a PoisonError panic clears the poison (hook) and re-runs once so that a
/// single crash does not smear over neighbouring inputs.
pub fn guard_retry<T>(f: impl Fn() -> T) -> Result<T, String> {
  match guard(&f) {
    Ok(v) => Ok(v),
    Err(m) if m.contains("PoisonError") => {
      clear_poison();
      match guard(&f) {
        Ok(v) => Ok(v),
        Err(m2) => Err(format!("{} (after clearing poison left by an earlier crash)", m2)),
      }
    }
    Err(m) => Err(m),
  }
}

pub fn clear_poison() {
  tyme4rs::tyme::lunar::verif_reset();
  tyme4rs::tyme::eightchar::verif_reset();
}

pub fn any_poison() -> bool {
  let p = tyme4rs::tyme::lunar::verif_poisoned();
  p[0] || p[1] || tyme4rs::tyme::eightchar::verif_poisoned()
}

pub fn silence_panics() {
  std::panic::set_hook(Box::new(|_| {}));
}

/// Partition the index range [lo, hi) into chunks handed out dynamically to THREADS workers.
/// `f(chunk_lo, chunk_hi, &mut Local)`; stops handing out chunks once the deadline passed.
/// Returns true when every chunk was processed.
/// (i, n): this process handles every chunk whose running number is congruent i modulo n (env VERIF_PART="i/n").
/// Process-level partitioning scales far better than threads here because every lunar query takes the
/// library's process-wide memo lock and clones its leap-year table.
pub fn part() -> (usize, usize) {
  match std::env::var("VERIF_PART") {
    Ok(v) => {
      let mut it = v.split('/');
      let i: usize = it.next().and_then(|x| x.parse().ok()).unwrap_or(0);
      let n: usize = it.next().and_then(|x| x.parse().ok()).unwrap_or(1);
      (i, n.max(1))
    }
    Err(_) => (0, 1),
  }
}

fn default_threads() -> usize {
  let d = if part().1 > 1 { 1 } else { THREADS };
  env_u64("VERIF_THREADS", d as u64) as usize
}

/// partitioned over the worker processes: each chunk is explored by exactly one process
pub fn par_chunks<F>(ctx: &Ctx, lo: usize, hi: usize, chunk: usize, f: F) -> bool
where
  F: Fn(usize, usize, &mut Local) + Sync,
{
  let (pi, pn) = part();
  par_chunks_n(ctx, default_threads(), lo, hi, chunk, |a, b, l| {
    let k = (a - lo) / chunk;
    if k % pn == pi {
      f(a, b, l)
    }
  })
}

/// not partitioned: every worker process computes all chunks (used to build the shared tables)
pub fn par_chunks_all<F>(ctx: &Ctx, lo: usize, hi: usize, chunk: usize, f: F) -> bool
where
  F: Fn(usize, usize, &mut Local) + Sync,
{
  let t = if part().1 > 1 { 2 } else { THREADS };
  par_chunks_n(ctx, t, lo, hi, chunk, f)
}

/// what each worker thread is exploring right now: (sweep number, chunk lo, chunk hi, started)
pub static WATCH: Mutex<Vec<Option<(usize, usize, usize, Instant)>>> = Mutex::new(Vec::new());
static SWEEP: AtomicUsize = AtomicUsize::new(0);
static SLOT: AtomicUsize = AtomicUsize::new(0);

/// Watchdog: an implementation call that never returns (or allocates without bound) cannot be caught by
/// catch_unwind. If one chunk stays in progress longer than `stuck_s`, or the process grows beyond `rss_cap_mb`,
/// the chunk is reported as a violation ("nontermination"), the partial result is written and the process exits 3.
pub fn start_watchdog(ctx: &'static Ctx, result_path: String, replay_tail: Vec<String>) {
  let stuck_s = env_u64("VERIF_STUCK_S", if ctx.quick() { 30 } else { 180 });
  let rss_cap_mb = env_u64("VERIF_RSS_CAP_MB", 3000);
  std::thread::spawn(move || loop {
    std::thread::sleep(Duration::from_millis(500));
    let rss_mb = std::fs::read_to_string("/proc/self/statm").ok().and_then(|s| s.split_whitespace().nth(1).and_then(|x| x.parse::<u64>().ok())).map(|p| p * 4096 / 1_048_576).unwrap_or(0);
    let slots = WATCH.lock().unwrap().clone();
    for s in slots.iter().flatten() {
      let (k, a, b, since) = *s;
      let over = since.elapsed().as_secs() > stuck_s;
      if over || rss_mb > rss_cap_mb {
        let mut rp = vec!["stuck".to_string(), k.to_string(), a.to_string(), b.to_string()];
        rp.extend(replay_tail.clone());
        ctx.violation(
          "nontermination",
          format!("sweep {} chunk {}..{}", k, a, b),
          format!("an implementation call inside sweep #{} chunk [{}, {}) of worker {}/{} {} (chunks of this sweep normally take well under a second)", k, a, b, part().0, part().1, if over { format!("has not returned for {} s", since.elapsed().as_secs()) } else { format!("made the process grow to {} MB", rss_mb) }),
          rp,
        );
        ctx.timed_out.store(true, Ordering::Relaxed);
        ctx.write_result(&result_path);
        std::process::exit(3);
      }
    }
  });
}

pub fn par_chunks_n<F>(ctx: &Ctx, threads: usize, lo: usize, hi: usize, chunk: usize, f: F) -> bool
where
  F: Fn(usize, usize, &mut Local) + Sync,
{
  let sweep = SWEEP.fetch_add(1, Ordering::Relaxed);
  let next = AtomicUsize::new(lo);
  let complete = AtomicBool::new(true);
  std::thread::scope(|s| {
    for _ in 0..threads {
      s.spawn(|| {
        let mut local = Local::default();
        let slot = SLOT.fetch_add(1, Ordering::Relaxed);
        {
          let mut w = WATCH.lock().unwrap();
          if w.len() <= slot {
            w.resize(slot + 1, None);
          }
        }
        loop {
          if ctx.expired() {
            if next.load(Ordering::Relaxed) < hi {
              complete.store(false, Ordering::Relaxed);
            }
            break;
          }
          let a = next.fetch_add(chunk, Ordering::Relaxed);
          if a >= hi {
            break;
          }
          let b = (a + chunk).min(hi);
          WATCH.lock().unwrap()[slot] = Some((sweep, a, b, Instant::now()));
          // a panic escaping a property body is a machinery error; make it loud
          f(a, b, &mut local);
          WATCH.lock().unwrap()[slot] = None;
        }
        ctx.add(&local);
      });
    }
  });
  complete.load(Ordering::Relaxed)
}

/// year windows: the fixed quick windows W of DESIGN §2 plus one seed-chosen 150-year window
pub fn quick_windows(seed: u64) -> Vec<(isize, isize)> {
  let mut w: Vec<(isize, isize)> = vec![(1, 40), (225, 250), (1570, 1600), (1890, 2110), (7260, 7300), (9960, 9999)];
  let s = 41 + (seed.wrapping_mul(0x9E3779B97F4A7C15) >> 33) % 9700;
  w.push((s as isize, (s as isize + 149).min(9999)));
  w
}

pub fn in_windows(w: &[(isize, isize)], y: isize) -> bool {
  w.iter().any(|&(a, b)| y >= a && y <= b)
}

/// the set of years a tier enumerates for "date" state spaces
pub fn years_for(ctx: &Ctx, lo: isize, hi: isize) -> Vec<isize> {
  if ctx.quick() {
    let w = quick_windows(ctx.seed);
    (lo..=hi).filter(|y| in_windows(&w, *y)).collect()
  } else {
    (lo..=hi).collect()
  }
}
