//! Source-level instrumentation for loom: copies /repo/src/tyme into OUT_DIR and routes *every* synchronisation
//! primitive the code may use (not only the three hook'd statics) through loom: std::sync::atomic, std::sync::{Mutex,
//! RwLock, Arc, Condvar, ...}, thread_local!, lazy_static!. Code left on std would be invisible to the scheduler.
//! The driver falls back to the plain #[path] build (hook lines only) if the rewritten tree does not compile.
use std::fs;
use std::path::{Path, PathBuf};

fn rewrite(src: &str) -> String {
  let mut s = src.replace("std::sync::atomic", "loom::sync::atomic");
  s = s.replace("core::sync::atomic", "loom::sync::atomic");
  for item in ["Mutex", "MutexGuard", "RwLock", "RwLockReadGuard", "RwLockWriteGuard", "Arc", "Condvar", "mpsc"] {
    s = s.replace(&format!("std::sync::{}", item), &format!("loom::sync::{}", item));
  }
  s = s.replace("std::sync::{", "loom::sync::{");
  s = s.replace("std::thread_local!", "loom::thread_local!");
  // bare thread_local! { ... } (not already qualified)
  let mut out = String::with_capacity(s.len());
  let mut rest = s.as_str();
  while let Some(i) = rest.find("thread_local!") {
    let before = &rest[..i];
    out.push_str(before);
    if before.ends_with("loom::") || before.ends_with("std::") {
      out.push_str("thread_local!");
    } else {
      out.push_str("loom::thread_local!");
    }
    rest = &rest[i + "thread_local!".len()..];
  }
  out.push_str(rest);
  // every lazy_static! block that holds interior-mutable state becomes a loom one (the cfg'd twins of the hook commit keep
  // working: the loom twin is already qualified). Immutable decoded tables stay on std: they are not shared *mutable* state
  // and re-decoding them in every explored schedule would only cost time.
  let mut out2 = String::with_capacity(out.len());
  let mut rest = out.as_str();
  while let Some(i) = rest.find("lazy_static! {") {
    let before = &rest[..i];
    out2.push_str(before);
    // extent of the block by brace matching
    let body_start = i + "lazy_static! {".len();
    let mut depth = 1usize;
    let mut end = body_start;
    for (k, ch) in rest[body_start..].char_indices() {
      if ch == '{' {
        depth += 1;
      } else if ch == '}' {
        depth -= 1;
        if depth == 0 {
          end = body_start + k;
          break;
        }
      }
    }
    let body = &rest[body_start..end];
    let mutable = ["Mutex", "RwLock", "Atomic", "RefCell", "Cell<", "Condvar"].iter().any(|t| body.contains(t));
    if before.ends_with("loom::") || !mutable {
      out2.push_str("lazy_static! {");
    } else {
      out2.push_str("loom::lazy_static! {");
    }
    rest = &rest[body_start..];
  }
  out2.push_str(rest);
  // plain `static X: AtomicU64 = AtomicU64::new(..);` / `static X: Mutex<..> = Mutex::new(..);` items: loom's constructors
  // are not const, and loom objects must be created inside a model run, so they become loom lazy statics
  let mut out3 = String::with_capacity(out2.len());
  for line in out2.lines() {
    let t = line.trim_start();
    let indent = &line[..line.len() - t.len()];
    let (vis, rest) = if let Some(r) = t.strip_prefix("pub static ") { ("pub ", r) } else if let Some(r) = t.strip_prefix("static ") { ("", r) } else { ("", "") };
    let mut done = false;
    if !rest.is_empty() && !rest.starts_with("ref ") && !rest.starts_with("mut ") && t.ends_with(';') {
      if let (Some(c), Some(e)) = (rest.find(": "), rest.find(" = ")) {
        if c < e {
          let name = &rest[..c];
          let ty = &rest[c + 2..e];
          let expr = &rest[e + 3..rest.len() - 1];
          if ["Atomic", "Mutex<", "RwLock<", "Condvar"].iter().any(|k| ty.contains(k)) {
            out3.push_str(&format!("{}loom::lazy_static! {{ {}static ref {}: {} = {}; }}\n", indent, vis, name, ty, expr));
            done = true;
          }
        }
      }
    }
    if !done {
      out3.push_str(line);
      out3.push('\n');
    }
  }
  out3
}

fn copy_dir(from: &Path, to: &Path) {
  fs::create_dir_all(to).unwrap();
  for e in fs::read_dir(from).unwrap() {
    let e = e.unwrap();
    let p = e.path();
    let t = to.join(e.file_name());
    if p.is_dir() {
      copy_dir(&p, &t);
    } else if p.extension().map(|x| x == "rs").unwrap_or(false) {
      let src = fs::read_to_string(&p).unwrap();
      // drop the in-file unit tests: they use std types directly and are not part of the harness
      let body = match src.find("#[cfg(test)]") {
        Some(i) => src[..i].to_string(),
        None => src,
      };
      fs::write(&t, rewrite(&body)).unwrap();
    }
  }
}

fn main() {
  println!("cargo:rerun-if-changed=/repo/src");
  println!("cargo:rerun-if-changed=build.rs");
  let out = PathBuf::from(std::env::var("OUT_DIR").unwrap());
  let dst = out.join("tyme");
  let _ = fs::remove_dir_all(&dst);
  copy_dir(Path::new("/repo/src/tyme"), &dst);
  fs::write(out.join("tyme_root.rs"), format!("#[path = \"{}\"]\npub mod tyme;\n", dst.join("mod.rs").display())).unwrap();
}
