//! tyme-mc-loom: exhaustive schedule exploration (loom, DPOR with a preemption bound) of the repository's own
//! source files (#[path]-included, compiled with --cfg tyme4rs_verif_loom so that the three process-wide
//! locks and their lazy statics are loom objects). Decides the schedule clause of C10:
//! the answers of concurrently issued queries equal the cold single-threaded answers in every interleaving.
//!
//!   tyme-mc-loom run C10 <quick|thorough> <seed> <result.json>
//!   tyme-mc-loom replay C10 <result.json> <harness> <bound|none> <execution index>
#![allow(dead_code, deprecated, unused_imports)]
// default: the rewritten copy of /repo/src/tyme produced by build.rs (every sync primitive routed through loom);
// feature "plain": the repository files themselves via #[path] (only the hook'd statics are loom objects)
#[cfg(not(feature = "plain"))]
include!(concat!(env!("OUT_DIR"), "/tyme_root.rs"));
#[cfg(feature = "plain")]
#[path = "/repo/src/tyme/mod.rs"]
pub mod tyme;

use std::collections::BTreeMap;
use std::panic::{catch_unwind, AssertUnwindSafe};
use std::sync::atomic::{AtomicU64, Ordering};
use std::sync::{Arc as StdArc, Mutex as StdMutex};
use std::time::Instant;

use tyme::eightchar::ChildLimit;
use tyme::enums::Gender;
use tyme::lunar::{LunarDay, LunarMonth, LunarYear};
use tyme::solar::{SolarDay, SolarTime};
use tyme::{Culture, Tyme};

#[derive(Clone, Copy, Debug, PartialEq)]
enum Q {
  Month(isize, isize),
  LunarOfSolar(isize, usize, usize),
  SolarOfLunar(isize, isize, usize),
  EightChar(isize, usize, usize, usize),
  ChildLimit(isize, usize, usize, usize, bool),
  MonthNext(isize, isize, isize),
  YearMonths(isize),
  LunarDayNew(isize, isize, usize),
  SolarDayNew(isize, usize, usize),
}

fn fmt_month(m: &LunarMonth) -> String {
  format!("y={} m={} days={} idx={} jd={}", m.get_year(), m.get_month_with_leap(), m.get_day_count(), m.get_index_in_year(), m.get_first_julian_day().get_day())
}

fn exec(q: Q) -> String {
  match q {
    Q::Month(y, m) => fmt_month(&LunarMonth::from_ym(y, m)),
    Q::LunarOfSolar(y, m, d) => {
      let l = SolarDay::from_ymd(y, m, d).get_lunar_day();
      format!("{} {} {} -> {}", l.get_year(), l.get_month(), l.get_day(), l.get_solar_day())
    }
    Q::SolarOfLunar(y, m, d) => LunarDay::from_ymd(y, m, d).get_solar_day().to_string(),
    Q::EightChar(y, m, d, h) => SolarTime::from_ymd_hms(y, m, d, h, 30, 0).get_lunar_hour().get_eight_char().get_name(),
    Q::ChildLimit(y, m, d, h, man) => {
      let c = ChildLimit::from_solar_time(SolarTime::from_ymd_hms(y, m, d, h, 7, 17), if man { Gender::MAN } else { Gender::WOMAN });
      format!("{} -> {}", c.get_start_time(), c.get_end_time())
    }
    Q::MonthNext(y, m, n) => fmt_month(&LunarMonth::from_ym(y, m).next(n)),
    Q::LunarDayNew(y, m, d) => match LunarDay::new(y, m, d) {
      Ok(l) => l.to_string(),
      Err(_) => "REFUSED(Err)".into(),
    },
    Q::SolarDayNew(y, m, d) => match SolarDay::new(y, m, d) {
      Ok(l) => l.to_string(),
      Err(_) => "REFUSED(Err)".into(),
    },
    Q::YearMonths(y) => LunarYear::from_year(y).get_months().iter().map(|m| fmt_month(m)).collect::<Vec<_>>().join(";"),
  }
}

fn answer(q: Q) -> String {
  match catch_unwind(AssertUnwindSafe(|| exec(q))) {
    Ok(s) => s,
    Err(_) => "REFUSED".to_string(),
  }
}

struct Harness {
  name: &'static str,
  /// per thread: the requests it issues in order
  threads: Vec<Vec<Q>>,
  /// preemption bounds to iterate (None = unbounded)
  bounds: Vec<Option<usize>>,
  thorough_only: bool,
}

fn harnesses() -> Vec<Harness> {
  let a = Q::Month(1, 12);
  let b = Q::Month(11, 2);
  let c = Q::Month(2020, 4);
  let d = Q::Month(2020, -4);
  vec![
    Harness { name: "H1 two threads, colliding keys in opposite order", threads: vec![vec![a, b], vec![b, a]], bounds: vec![Some(0), Some(1), Some(2), Some(3), None], thorough_only: false },
    Harness { name: "H1b two threads, month / leap twin", threads: vec![vec![c, d, c], vec![d, c]], bounds: vec![Some(0), Some(1), Some(2), None], thorough_only: false },
    Harness { name: "H2 three threads x two requests", threads: vec![vec![a, b], vec![b, a], vec![a, Q::Month(1, 11)]], bounds: vec![Some(0), Some(1), Some(2), None], thorough_only: false },
    Harness {
      name: "H3 mixed walkers (provider lock -> memo lock nesting)",
      threads: vec![vec![Q::LunarOfSolar(2021, 2, 20), Q::EightChar(2021, 2, 3, 23)], vec![Q::EightChar(2021, 2, 3, 23), Q::SolarOfLunar(2021, 1, 9)], vec![Q::ChildLimit(1989, 12, 31, 23, true)]],
      bounds: vec![Some(0), Some(1), Some(2), Some(3)],
      thorough_only: false,
    },
    Harness {
      // loom cannot unwind through a held loom MutexGuard (its inner std mutex is poisoned and loom's lock() unwraps it),
      // so only refusals reported as Err are raced here; panicking refusals are decided by the sequential explorer
      name: "H4 refused (Err) requests race with valid ones",
      threads: vec![vec![Q::LunarDayNew(1, 12, 31), a], vec![b, Q::SolarDayNew(2021, 2, 30), a], vec![Q::LunarDayNew(11, 2, 0), b]],
      bounds: vec![Some(0), Some(1), Some(2), Some(3), None],
      thorough_only: false,
    },
    Harness { name: "H5 month stepping across years from three threads", threads: vec![vec![Q::MonthNext(1, 12, 1), a], vec![Q::MonthNext(2, 1, -1), b], vec![Q::YearMonths(1)]], bounds: vec![Some(0), Some(1), Some(2), Some(3)], thorough_only: true },
    Harness {
      name: "H7 a three-call history in one thread races a year listing and an eight-char query",
      threads: vec![vec![a, Q::LunarDayNew(11, 2, 31), b], vec![Q::YearMonths(11)], vec![Q::EightChar(11, 3, 1, 23)]],
      bounds: vec![Some(0), Some(1), Some(2), Some(3)],
      thorough_only: true,
    },
    Harness { name: "H6 four threads x one colliding request", threads: vec![vec![a], vec![b], vec![Q::Month(1, 11)], vec![Q::Month(11, 1)]], bounds: vec![Some(0), Some(1), Some(2), None], thorough_only: true },
  ]
}

struct Obs {
  executions: u64,
  mismatches: Vec<(u64, String)>,
  signatures: BTreeMap<String, u64>,
}

/// explore one harness under one bound; `want_exec` = Some(k): print the observation of execution k (replay)
fn explore(h: &Harness, bound: Option<usize>, cold: &BTreeMap<String, String>, want_exec: Option<u64>, deadline: Instant) -> Result<Obs, String> {
  let obs = StdArc::new(StdMutex::new(Obs { executions: 0, mismatches: Vec::new(), signatures: BTreeMap::new() }));
  let mut b = loom::model::Builder::new();
  b.preemption_bound = bound;
  b.max_branches = 200_000;
  b.max_duration = Some(deadline.saturating_duration_since(Instant::now()).max(std::time::Duration::from_secs(1)));
  let threads = h.threads.clone();
  let obs2 = obs.clone();
  let cold2 = cold.clone();
  let r = catch_unwind(AssertUnwindSafe(|| {
    b.check(move || {
      let log: StdArc<StdMutex<Vec<(usize, usize, String)>>> = StdArc::new(StdMutex::new(Vec::new()));
      let mut hs = Vec::new();
      for (ti, reqs) in threads.iter().enumerate() {
        let reqs = reqs.clone();
        let log = log.clone();
        hs.push(loom::thread::spawn(move || {
          for (ri, q) in reqs.iter().enumerate() {
            let a = answer(*q);
            log.lock().unwrap().push((ti, ri, a));
          }
        }));
      }
      for h in hs {
        h.join().unwrap();
      }
      let log = log.lock().unwrap();
      let mut o = obs2.lock().unwrap();
      let k = o.executions;
      o.executions += 1;
      // completion-order signature: shows that the threads really interleaved differently
      let sig: String = log.iter().map(|(t, r, _)| format!("{}.{}", t, r)).collect::<Vec<_>>().join(" ");
      *o.signatures.entry(sig.clone()).or_insert(0) += 1;
      for (t, r, a) in log.iter() {
        let q = threads[*t][*r];
        let want = &cold2[&format!("{:?}", q)];
        if a != want && o.mismatches.len() < 50 {
          o.mismatches.push((k, format!("thread {} request {:?} answered '{}' but the cold answer is '{}' (completion order: {})", t, q, a, want, sig)));
        }
      }
      if want_exec == Some(k) {
        println!("  execution {} completion order [{}]", k, sig);
        for (t, r, a) in log.iter() {
          println!("    thread {} {:?} -> '{}' (cold '{}')", t, threads[*t][*r], a, cold2[&format!("{:?}", threads[*t][*r])]);
        }
      }
    });
  }));
  let o = std::mem::replace(&mut *obs.lock().unwrap(), Obs { executions: 0, mismatches: Vec::new(), signatures: BTreeMap::new() });
  match r {
    Ok(()) => Ok(o),
    Err(e) => {
      let msg = if let Some(s) = e.downcast_ref::<&str>() { s.to_string() } else if let Some(s) = e.downcast_ref::<String>() { s.clone() } else { "panic".into() };
      Err(format!("loom aborted after {} executions: {}", o.executions, msg))
    }
  }
}

fn cold_answers(hs: &[Harness]) -> BTreeMap<String, String> {
  // each cold answer is computed in its own single-threaded loom execution (fresh lazy statics = cold memo)
  let out: StdArc<StdMutex<BTreeMap<String, String>>> = StdArc::new(StdMutex::new(BTreeMap::new()));
  for h in hs {
    for t in &h.threads {
      for q in t {
        let q = *q;
        let key = format!("{:?}", q);
        if out.lock().unwrap().contains_key(&key) {
          continue;
        }
        let out2 = out.clone();
        loom::model(move || {
          let a = answer(q);
          out2.lock().unwrap().insert(format!("{:?}", q), a);
        });
      }
    }
  }
  let m = out.lock().unwrap().clone();
  m
}

fn js(s: &str) -> String {
  let mut o = String::from("\"");
  for c in s.chars() {
    match c {
      '"' => o.push_str("\\\""),
      '\\' => o.push_str("\\\\"),
      '\n' => o.push_str("\\n"),
      c if (c as u32) < 0x20 => o.push_str(&format!("\\u{:04x}", c as u32)),
      c => o.push(c),
    }
  }
  o.push('"');
  o
}

fn bound_str(b: Option<usize>) -> String {
  match b {
    Some(n) => n.to_string(),
    None => "none".into(),
  }
}

fn main() {
  let args: Vec<String> = std::env::args().collect();
  std::panic::set_hook(Box::new(|_| {}));
  let start = Instant::now();
  if args.len() >= 7 && args[1] == "replay" {
    let hs = harnesses();
    let h = hs.iter().find(|h| h.name == args[4]).expect("harness");
    let bound = if args[5] == "none" { None } else { Some(args[5].parse().unwrap()) };
    let k: u64 = args[6].parse().unwrap();
    let cold = cold_answers(&hs);
    println!("replay C10 loom harness '{}' preemption bound {} execution {}", h.name, args[5], k);
    let o = explore(h, bound, &cold, Some(k), start + std::time::Duration::from_secs(600));
    let mut viol = Vec::new();
    match o {
      Ok(o) => {
        for (e, m) in o.mismatches {
          if e == k {
            viol.push(m);
          }
        }
      }
      Err(m) => viol.push(m),
    }
    let vs: Vec<String> = viol.iter().map(|m| format!("{{\"check\": \"schedule\", \"key\": {}, \"detail\": {}, \"replay\": []}}", js(&format!("{} bound={} exec={}", h.name, args[5], k)), js(m))).collect();
    std::fs::write(&args[3], format!("{{\"violations\": [{}]}}", vs.join(","))).unwrap();
    return;
  }
  if args.len() < 6 || args[1] != "run" {
    eprintln!("usage: tyme-mc-loom run C10 <tier> <seed> <result.json>");
    std::process::exit(2);
  }
  let quick = args[3] != "thorough";
  let budget = std::time::Duration::from_secs(if quick { 40 } else { 1200 });
  let deadline = start + budget;
  let hs = harnesses();
  let cold = cold_answers(&hs);
  let mut states: u64 = 0;
  let mut transitions: u64 = 0;
  let mut subspaces = Vec::new();
  let mut violations: Vec<String> = Vec::new();
  let mut vcount: u64 = 0;
  let mut outcomes: BTreeMap<String, u64> = BTreeMap::new();
  let mut samples: Vec<String> = Vec::new();
  let mut timed_out = false;
  for h in &hs {
    if quick && h.thorough_only {
      continue;
    }
    let nreq: u64 = h.threads.iter().map(|t| t.len() as u64).sum();
    for &b in &h.bounds {
      if quick && (b.is_none() || b.unwrap_or(0) >= 3) && h.threads.len() > 2 {
        continue;
      }
      if Instant::now() >= deadline {
        timed_out = true;
        subspaces.push(format!("{{\"name\": {}, \"completed\": false, \"cases\": 0}}", js(&format!("loom {} preemption bound {}: skipped (deadline)", h.name, bound_str(b)))));
        continue;
      }
      match explore(h, b, &cold, None, deadline) {
        Ok(o) => {
          states += o.executions;
          transitions += o.executions * nreq;
          let distinct = o.signatures.len();
          subspaces.push(format!(
            "{{\"name\": {}, \"completed\": true, \"cases\": {}}}",
            js(&format!("loom {} ({} threads, {} requests) preemption bound {}: {} complete schedules, {} distinct completion orders", h.name, h.threads.len(), nreq, bound_str(b), o.executions, distinct)),
            o.executions
          ));
          *outcomes.entry(format!("distinct completion orders in {}", h.name)).or_insert(0) = (*outcomes.get(&format!("distinct completion orders in {}", h.name)).unwrap_or(&0)).max(distinct as u64);
          if samples.len() < 6 {
            if let Some((sig, n)) = o.signatures.iter().next() {
              samples.push(format!("loom {} bound {}: schedule with completion order [{}] ({} schedules share it); all answers equal the cold answers: {}", h.name, bound_str(b), sig, n, o.mismatches.is_empty()));
            }
          }
          for (k, m) in o.mismatches {
            vcount += 1;
            violations.push(format!(
              "{{\"check\": \"schedule\", \"key\": {}, \"detail\": {}, \"replay\": [\"sched\", {}, {}, {}]}}",
              js(&format!("{} bound={} exec={}", h.name, bound_str(b), k)),
              js(&m),
              js(h.name),
              js(&bound_str(b)),
              js(&k.to_string())
            ));
          }
        }
        Err(m) => {
          // loom itself reports deadlocks / exceeded branches by panicking
          if m.contains("deadlock") {
            vcount += 1;
            violations.push(format!("{{\"check\": \"deadlock\", \"key\": {}, \"detail\": {}, \"replay\": [\"sched\", {}, {}, \"0\"]}}", js(&format!("{} bound={}", h.name, bound_str(b))), js(&m), js(h.name), js(&bound_str(b))));
          } else {
            timed_out = true;
            subspaces.push(format!("{{\"name\": {}, \"completed\": false, \"cases\": 0}}", js(&format!("loom {} preemption bound {}: not completed ({})", h.name, bound_str(b), m))));
          }
        }
      }
    }
  }
  let mut s = String::new();
  s.push_str("{\n");
  s.push_str("  \"property\": \"C10\",\n");
  s.push_str(&format!("  \"tier\": {},\n  \"seed\": {},\n", js(if quick { "quick" } else { "thorough" }), args[4].parse::<u64>().unwrap_or(0)));
  s.push_str(&format!("  \"wall_s\": {:.3},\n", start.elapsed().as_secs_f64()));
  s.push_str(&format!("  \"states\": {},\n  \"transitions\": {},\n  \"traces\": {},\n  \"nontrivial\": {},\n  \"evaluations\": {},\n", states, transitions, states, states, transitions));
  s.push_str(&format!("  \"timed_out\": {},\n  \"violation_count\": {},\n  \"violations_per_check\": {{}},\n", timed_out, vcount));
  s.push_str(&format!("  \"outcomes\": {{{}}},\n", outcomes.iter().map(|(k, v)| format!("{}: {}", js(k), v)).collect::<Vec<_>>().join(", ")));
  s.push_str(&format!("  \"subspaces\": [{}],\n", subspaces.join(", ")));
  s.push_str(&format!("  \"samples\": [{}],\n", samples.iter().map(|x| js(x)).collect::<Vec<_>>().join(", ")));
  s.push_str("  \"notes\": [\"loom: state = one complete schedule (execution) of the harness; transition = one request answered inside it; every schedule within the preemption bound is enumerated by DPOR\"],\n");
  s.push_str("  \"assumptions\": [\"loom models std::sync::Mutex/Arc/lazy_static scheduling points; the RefCell lazies are !Sync so one value cannot be shared across threads (compiler-enforced, no unsafe); loom's Mutex has no poisoning, so poisoning is decided by the sequential explorer on std's Mutex\"],\n");
  s.push_str(&format!("  \"violations\": [{}]\n}}\n", violations.join(",\n")));
  std::fs::write(&args[5], s).unwrap();
}
